// libFuzzer + ASan/UBSan target for the wikitext scanner (C10).
// Built by lib/vf/props/c10.py:  clang++ -fsanitize=fuzzer,address,undefined -DUSCAN_CC='"<repo>/.../_uscan.cc"'
//                                -include lexemes.h uscan_fuzz.cc
// The semantic oracle (tiling) lives inside the target; sanitizers catch out-of-bounds reads.
#include USCAN_CC
#include <stdint.h>
#include <stdio.h>
#include <stdlib.h>
#include <string.h>

#ifndef SENTINELS
#define SENTINELS 32
#endif

static void die(const char *what, size_t i, long a, long b) {
  fprintf(stderr, "TILING-VIOLATION %s tok=%zu a=%ld b=%ld\n", what, i, a, b);
  abort();
}

// bytes -> code points: b < 200 selects a lexeme; otherwise two bytes give an arbitrary code point
static void decode(const uint8_t *data, size_t size, std::vector<Py_UCS4> &buf) {
  for (size_t i = 0; i < size; i++) {
    uint8_t b = data[i];
    if (b < 200) {
      const Py_UCS4 *l = LEX[b % NLEX];
      for (int k = 0; k < LEXLEN[b % NLEX]; k++) buf.push_back(l[k]);
    } else if (i + 2 < size) {
      Py_UCS4 c = ((Py_UCS4)(b - 200) << 16 | (Py_UCS4)data[i + 1] << 8 | data[i + 2]);
      if (c > 0x10FFFF) c = 0x10FFFF;
      if (c >= 0xD800 && c <= 0xDFFF) c = 0xE000;
      buf.push_back(c);
      i += 2;
    }
  }
}

extern "C" int LLVMFuzzerTestOneInput(const uint8_t *data, size_t size) {
  std::vector<Py_UCS4> buf;
  decode(data, size, buf);
  size_t n = buf.size();
  for (int i = 0; i < SENTINELS; i++) buf.push_back(0);
  // exact-size heap copy so that ASan sees any read past the sentinels
  Py_UCS4 *p = (Py_UCS4 *)malloc(buf.size() * sizeof(Py_UCS4));
  memcpy(p, buf.data(), buf.size() * sizeof(Py_UCS4));
  Scanner sc(p, p + n + SENTINELS);
  while (sc.scan()) {
  }
  size_t end = 0;
  while (end < n && p[end] != 0) end++;
  size_t pos = 0;
  for (size_t i = 0; i < sc.tokens.size(); i++) {
    Token &t = sc.tokens[i];
    if (t.len <= 0) die("empty-token", i, t.start, t.len);
    if (t.type < 1 || t.type > 26) die("unknown-type", i, t.type, 0);
    if ((size_t)t.start < pos) die("overlap", i, t.start, pos);
    while (pos < (size_t)t.start) {
      if (p[pos] != 0xEBAD) die("gap-not-ebad", i, pos, p[pos]);
      pos++;
    }
    pos += t.len;
    if (pos > end) die("past-end", i, pos, end);
  }
  while (pos < end) {
    if (p[pos] != 0xEBAD) die("tail-not-covered", sc.tokens.size(), pos, p[pos]);
    pos++;
  }
  free(p);
  return 0;
}
