import sys, time, logging, random, traceback, collections
logging.disable(logging.CRITICAL)
exec(open("fuzz1.py").read().split("db = DictDB")[0])  # imports + lex
from mwlib.parser.dummydb import DummyDB
import mwlib.parser.advtree as A
from mwlib.parser import nodes as N
def validate(root):
    seen=set(); st=[(root,None)]
    while st:
        n,p=st.pop()
        if id(n) in seen: return "dup-node"
        seen.add(id(n))
        if n.parent is not p: return "bad-parent:"+n.__class__.__name__
        if n.__class__ is N.Text and n.children: return "text-children"
        for c in n.children: st.append((c,n))
    return None
def contract(root):
    for n in root.allchildren():
        c=n.__class__
        if c is A.Table:
            for ch in n.children:
                if ch.__class__ not in (A.Row, N.Caption, A.TableCaption): return "table-child:"+ch.__class__.__name__
        elif c is A.Row:
            for ch in n.children:
                if ch.__class__ is not A.Cell: return "row-child:"+ch.__class__.__name__
            if n.parent.__class__ is not A.Table: return "row-outside:"+n.parent.__class__.__name__
        elif c is A.ItemList:
            for ch in n.children:
                if ch.__class__ is not A.Item: return "list-child:"+ch.__class__.__name__
        elif c is A.Cell:
            if n.parent.__class__ is not A.Row: return "cell-outside:"+n.parent.__class__.__name__
        elif c is A.Item:
            if n.parent.__class__ is not A.ItemList: return "item-outside:"+n.parent.__class__.__name__
    return None
rng = random.Random(int(sys.argv[1])); buckets=collections.Counter(); ex={}
t0=time.time(); n=0
SKIP={"fix_paragraphs","remove_scroll_elements","fix_region_list_tables"}
while time.time()-t0 < float(sys.argv[2]):
    k = rng.randint(1, 25); s = "".join(rng.choice(lex) for _ in range(k)); n+=1
    if "&#99999999999;" in s or "&#xFFFFFFFFFF;" in s: continue
    try: t = parse_string(title='T', raw=s, wikidb=DummyDB(), lang='en') if "{{" not in s else parse_string(title='T', raw=s, lang='en')
    except Exception as e: buckets[("parse",type(e).__name__)]+=1; continue
    A.build_advanced_tree(t)
    v=validate(t)
    if v: buckets[("adv",v)]+=1; ex.setdefault(("adv",v),s); continue
    tc=TreeCleaner(t); bad=False
    for name in tc.cleaner_methods:
        try: getattr(tc,name)(t)
        except Exception as e:
            if name not in SKIP:
                key=("exc",name,type(e).__name__); buckets[key]+=1
                if key not in ex or len(s)<len(ex[key]): ex[key]=s
            continue
        v=validate(t)
        if v:
            key=("after",name,v); buckets[key]+=1
            if key not in ex or len(s)<len(ex[key]): ex[key]=s
            bad=True; break
    if not bad:
        v=contract(t)
        if v:
            key=("contract",v); buckets[key]+=1
            if key not in ex or len(s)<len(ex[key]): ex[key]=s
print(n,"cases")
for k,v in buckets.most_common(): print(v,k,repr(ex.get(k)))
