import logging, copy, io, contextlib, urllib.parse, json
logging.disable(logging.CRITICAL)
from hypothesis import given, settings, strategies as st, seed
from mwlib.core import nserve
from mwlib.core.nshandling import NsHandler
from mwlib.network.siteinfo import get_siteinfo
printable = st.characters(blacklist_categories=("Cc","Cs","Zl","Zp","Cf","Co","Cn"))
bad=[]
@seed(1)
@settings(max_examples=20000, deadline=None, database=None)
@given(st.text(alphabet=printable, max_size=12))
def t(name):
    d = nserve.get_content_disposition(name, "pdf")
    ok = all(0x20 <= ord(c) < 0x7f for c in d)
    parts = d.split(";")
    ok = ok and parts[0]=="inline" and parts[1].startswith(" filename=") and len(parts) in (2,3)
    fn = parts[1][len(" filename="):]
    ok = ok and fn.endswith(".pdf") and not any(c in fn for c in ' ";,\'')
    if len(parts)==3:
        ok = ok and parts[2].startswith("filename*=UTF-8''")
        dec = urllib.parse.unquote(parts[2][len("filename*=UTF-8''"):])
        ok = ok and dec == (name.strip() or "collection")+".pdf"
    if not ok: bad.append((name,d))
t()
print("C19 header bad:", len(bad), bad[:5])
# C12 case-sensitive config
import random
rng=random.Random(2); nbad=0; ex=None
for lang in ("en","de","ja"):
    si=copy.deepcopy(get_siteinfo(lang)); si["general"]["case"]="case-sensitive"; h=NsHandler(si)
    names=[(ns["id"],ns["*"]) for ns in si["namespaces"].values()]+[(a["id"],a["*"]) for a in si.get("namespacealiases",[])]
    for _ in range(20000):
        nsid,nsn=rng.choice(names); rest="".join(rng.choice(list("aBéßx1 -./")) for _ in range(rng.randint(1,6))).strip()
        if not rest or rest.startswith(":"): continue
        canon=h.splitname((nsn+":" if nsn else "")+rest, 0)
        v=("".join(c.upper() if rng.random()<.5 else c.lower() for c in nsn)+rng.choice([":"," :",": "]) if nsn else "")+rest.replace(" ",rng.choice([" ","_","  "]))
        got=h.splitname(rng.choice([""," ",":"])+v+rng.choice([""," ","_"]),0)
        if got!=canon or h.splitname(canon[2],0)!=canon or canon[0]!=nsid:
            nbad+=1; ex=ex or (lang,nsn,rest,v,canon,got)
print("C12 case-sensitive bad:", nbad, ex)
