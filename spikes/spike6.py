import sys, time, logging, random, traceback, collections
logging.disable(logging.CRITICAL)
exec(open("fuzz1.py").read().split("db = DictDB")[0])
import mwlib.parser.advtree as A
A.AdvancedNode.getLastChild = A.AdvancedNode.get_last_child
A.AdvancedNode.moveto = A.AdvancedNode.move_to
A.AdvancedNode.getChildNodesByClass = A.AdvancedNode.get_child_nodes_by_class
A.AdvancedNode.appendChild = A.AdvancedNode.append_child
from mwlib.parser.expander import DictDB
class Budget(Exception): pass
def run_with_budget(f, budget):
    cnt=[0]
    def prof(fr,ev,arg):
        if ev=='call' or ev=='c_call':
            cnt[0]+=1
            if cnt[0]>budget: raise Budget()
    sys.setprofile(prof)
    try: return f()
    finally: sys.setprofile(None)
rng = random.Random(int(sys.argv[1])); buckets=collections.Counter(); ex={}
t0=time.time(); n=0
lex2 = lex + ["<p>","</p>","\n== h ==\n","\n=== h ===\n","<p>x</p>","<div style=\"overflow:auto;height:200px\">","<div id=region_list>"]*3
while time.time()-t0 < float(sys.argv[2]):
    k = rng.randint(1, 25); s = "".join(rng.choice(lex2) for _ in range(k)); n+=1
    if "&#99999999999;" in s or "&#xFFFFFFFFFF;" in s or "{{" in s: continue
    try: t = parse_string(title='T', raw=s, lang='en')
    except Exception as e: buckets[("parse",type(e).__name__)]+=1; continue
    A.build_advanced_tree(t); tc=TreeCleaner(t)
    nn = sum(1 for _ in t.allchildren())
    for name in tc.cleaner_methods:
        try: run_with_budget(lambda: getattr(tc,name)(t), 2_000_000+2000*nn*nn)
        except Budget:
            key=("HANG",name); buckets[key]+=1
            if key not in ex or len(s)<len(ex[key]): ex[key]=s
            break
        except Exception as e:
            tb=traceback.extract_tb(e.__traceback__); fr=[f for f in tb if '/repo/' in f.filename][-1]
            key=("exc",name,type(e).__name__,fr.name,fr.lineno); buckets[key]+=1
            if key not in ex or len(s)<len(ex[key]): ex[key]=s
print(n,"cases")
for k,v in buckets.most_common(): print(v,k,repr(ex.get(k)))
