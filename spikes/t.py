import os, sys, time, json
from mwlib.network import fetch
from mwlib.network.siteinfo import get_siteinfo
from mwlib.core import metabook, wiki
from mwlib.apps.buildzip import zip_dir
from mwlib.utils.status import Status
import shutil
shutil.rmtree('nw', ignore_errors=True)
fs = fetch.FsOutput('nw')
si = get_siteinfo('en')
fs.write_siteinfo(si)
mb = metabook.Collection(title="My Book")
n = int(sys.argv[1])
for i in range(n):
    mb.append_article(f"Art{i}")
fs.dump_json(metabook=mb)
fs.nfo = {"format":"nuwiki","base_url":"http://example.org/w/","script_extension":".php"}
for i in range(n):
    fs.write_pages({"pages": {str(i): {"title": f"Art{i}", "ns":0, "revisions":[{"revid": 100+i, "*": f"== Head{i} ==\nalpha{i} '''beta{i}''' {{{{T|gamma{i}}}}}\n* item{i}\n"}]}}})
fs.write_pages({"pages": {"99": {"title": "Template:T", "ns":10, "revisions":[{"revid": 999, "*": "tmpl-{{{1}}}-end"}]}}})
fs.write_redirects({})
fs.write_licenses([])
fs.write_authors(); fs.write_html(); fs.imageinfo.close()
fs.close()
z = zip_dir('nw', 'nw.zip')
env = wiki.make_wiki(z)
from mwlib.writers.rl.writer import writer
t=time.time()
try:
    writer(env, output='out.pdf', status_callback=Status(None))
    print("OK", time.time()-t)
except Exception as e:
    import traceback; traceback.print_exc()
    print("FAIL", repr(e))
from pypdf import PdfReader
if os.path.exists('out.pdf'):
    txt = "\n".join(p.extract_text() for p in PdfReader('out.pdf').pages)
    print(txt[:1500])
