import os, sys, logging
logging.disable(logging.CRITICAL)
from mwlib.utils.status import Status
out = sys.argv[1]
os.stat(out + ".BEGIN") if os.path.exists(out+".BEGIN") else None
try: os.stat("/tmp/x/c20/MARK_BEGIN")
except OSError: pass
s = Status(out); s.stdout=None
s(status="a", progress=10)
s(status="b"*5000, progress=50)
try: os.stat("/tmp/x/c20/MARK_END")
except OSError: pass
