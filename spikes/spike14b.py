import logging, sys, os, shutil, tempfile, zipfile, json
logging.disable(logging.CRITICAL)
from mwlib.network import fetch
from mwlib.network.siteinfo import get_siteinfo
from mwlib.core import metabook, wiki, nuwiki
from mwlib.core.nshandling import NsHandler
from mwlib.apps.buildzip import zip_dir
from mwlib.utils import myjson
from hypothesis import given, settings, strategies as st, HealthCheck, seed
import copy
os.environ["TMPDIR"]="/tmp/x/tmp"; os.makedirs("/tmp/x/tmp", exist_ok=True); tempfile.tempdir="/tmp/x/tmp"
# ---- C14 images
for lang in ("de","en","fr"):
    si = get_siteinfo(lang); h = NsHandler(copy.deepcopy(si))
    d = tempfile.mkdtemp()
    fs = fetch.FsOutput(os.path.join(d,'nw')); fs.write_siteinfo(si)
    fs.nfo = {"format":"nuwiki","base_url":"http://example.org/w/","script_extension":".php"}
    titles = ["Foo bar.png", "Ünï ~x.jpg", "a-b_c.d~e.png", "Foo Bar.png", "日本.png", "x.svg"]
    local = si["namespaces"]["6"]["*"]
    for i,t in enumerate(titles):
        full = h.splitname(t, 6)[2]
        with open(fs.get_imagepath(full), "wb") as f: f.write(b"IMG%d"%i)
    fs.write_redirects({}); fs.write_licenses([]); fs.dump_json(metabook=metabook.Collection()); fs.write_authors(); fs.write_html(); fs.imageinfo.close(); fs.close()
    z = zip_dir(os.path.join(d,'nw'), os.path.join(d,'nw.zip')); env = wiki.make_wiki(z); w=env.wiki
    names = [local, "File", "Image"] + [a["*"] for a in si.get("namespacealiases",[]) if a["id"]==6]
    bad=[]
    for i,t in enumerate(titles):
        for nsn in set(names):
            for sp in (t, t.replace(" ","_"), t[0].lower()+t[1:], "  "+t+" ", t.replace(" ","  ")):
                for pre in (nsn+":", nsn.lower()+":", nsn.upper()+" : ", ""):
                    name = pre+sp
                    try:
                        p = w.get_disk_path(name)
                        ok = p is not None and open(p,"rb").read()==b"IMG%d"%i
                    except Exception as e:
                        ok=False; p=repr(e)
                    if not ok: bad.append((name,p))
    print(lang, "image lookups bad:", len(bad), bad[:6])
    w.clear(); shutil.rmtree(d)
# ---- C15
import itertools
root = tempfile.mkdtemp(); 
comps = ["..",".","","a","out","outx"]
viol=0; rej=0; acc=0
for depth in (1,2,3):
  for cs in itertools.product(comps, repeat=depth):
    for sep in ("/","\\"):
      for absolute in (False, True):
        name = sep.join(cs)
        if absolute: name = root+"/"+name if sep=="/" else name
        sb = tempfile.mkdtemp(dir=root); dst=os.path.join(sb,"out"); os.makedirs(dst); os.makedirs(os.path.join(sb,"outx"))
        zp=os.path.join(sb,"z.zip")
        with zipfile.ZipFile(zp,"w") as zf: zf.writestr(zipfile.ZipInfo(name or "x"), b"data")
        before=set()
        for dp,dn,fn in os.walk(sb):
            for f in fn: before.add(os.path.join(dp,f))
        try:
            nuwiki.extractall(zipfile.ZipFile(zp), dst); acc+=1
        except Exception as e:
            rej+=1
        after=set()
        for dp,dn,fn in os.walk(root):
            for f in fn: after.add(os.path.join(dp,f))
        new=[p for p in after-before if not p.startswith(dst+os.sep) and p.startswith(sb)]
        new += [p for p in after if not p.startswith(sb) and "z.zip" not in p and p.startswith(root) and os.path.dirname(p)==root]
        if new: viol+=1; print("ESCAPE", repr(name), new)
        shutil.rmtree(sb)
print("C15 acc",acc,"rej",rej,"viol",viol)
shutil.rmtree(root)
# ---- C13
from mwlib.core import nserve, serve
items = st.recursive(st.builds(lambda t,r,d: ("a",t,r,d), st.text(max_size=6), st.none()|st.integers(0,10**9), st.none()|st.text(max_size=4)), lambda ch: st.builds(lambda t,its: ("c",t,its), st.text(max_size=5), st.lists(ch, max_size=3)), max_leaves=8)
def build(spec):
    if spec[0]=="a":
        kw={"title":spec[1]}
        if spec[2] is not None: kw["revision"]=spec[2]
        if spec[3] is not None: kw["displaytitle"]=spec[3]
        return metabook.Article(**kw)
    c = metabook.Chapter(title=spec[1]); c.items=[build(s) for s in spec[2] if s[0]=="a"]; return c
@seed(3)
@settings(max_examples=2000, deadline=None, database=None)
@given(st.lists(items, max_size=5), st.text(max_size=5)|st.none())
def t13(specs, title):
    mb = metabook.Collection(title=title); mb.items=[build(s) for s in specs]
    s1 = mb.dumps(); mb2 = myjson.loads(s1); s2 = mb2.dumps()
    assert s1==s2, (s1,s2)
    s3 = myjson.dumps(myjson.loads(json.dumps(json.loads(s1), sort_keys=False, indent=None, ensure_ascii=False)), sort_keys=True, indent=4)
    assert s3==s1
    d1={"metabook":s1,"base_url":"http://x/w/","writer":"rl"}; d2=dict(d1, metabook=json.dumps(json.loads(s1), ensure_ascii=False))
    assert nserve.make_collection_id(d1)==nserve.make_collection_id(d2)
import io, contextlib
with contextlib.redirect_stdout(io.StringIO()): t13()
print("C13 ok")
