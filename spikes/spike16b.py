import logging, time as _time
logging.disable(logging.CRITICAL)
import gevent, hypothesis
from hypothesis import settings, strategies as st, seed, Phase
from hypothesis.stateful import RuleBasedStateMachine, rule, invariant, precondition, run_state_machine_as_test
from qs import jobs, qserve
class FakeTime:
    def __init__(s): s.t=1000.0
    def time(s): return s.t
class Chooser:
    def __init__(s): s.picks=[]
    def choice(s, alts):
        i = s.picks.pop(0) % len(alts) if s.picks else 0
        return alts[i]
class M(RuleBasedStateMachine):
    def __init__(s):
        super().__init__()
        s.ft=FakeTime(); s.ch=Chooser(); jobs.time=s.ft; jobs.random=s.ch
        s.wq=jobs.workq()
        class P(qserve.QPlugin): workq=s.wq
        s.P=P; s.workers={i:P() for i in (1,2,3)}; s.client=P()
        s.greenlets={}; s.got={i:[] for i in (1,2,3)}; s.accepted=set(); s.finished=set(); s.n=0
    def settle(s):
        for _ in range(20): gevent.sleep(0)
    @rule(ch=st.sampled_from("ab"), prio=st.integers(0,1), pick=st.integers(0,2))
    def add(s, ch, prio, pick):
        s.n+=1; jid="j%d"%s.n; s.ch.picks.append(pick)
        s.client.rpc_qadd(ch, priority=prio, jobid=jid); s.accepted.add(jid)
    @rule(w=st.sampled_from([1,2,3]), chans=st.sampled_from([["a"],["b"],["a","b"],[]]))
    def start_pull(s, w, chans):
        if w in s.greenlets and not s.greenlets[w].ready(): return
        def run(): s.got[w].append(s.workers[w].rpc_qpull(chans)["jobid"])
        s.greenlets[w]=gevent.spawn(run)
    @rule()
    def run(s): s.settle()
    @rule(w=st.sampled_from([1,2,3]))
    def finish(s, w):
        held=[j for j in s.got[w] if j not in s.finished and j in s.workers[w].running_jobs]
        if held:
            s.workers[w].rpc_qfinish(held[0], result={"ok":1}); s.finished.add(held[0])
    @invariant()
    def conserved(s):
        inflight=[ev.value.jobid for _,ev in s.wq._waiters if ev.ready()]
        queued=inflight+[j.jobid for q in s.wq.channel2q.values() for j in q if not j.done]
        held=[j for w in s.workers.values() for j in w.running_jobs]
        for jid in s.accepted - s.finished:
            c = queued.count(jid)+held.count(jid)
            assert c==1, (jid, c, queued, held)
    def teardown(s):
        for g in s.greenlets.values(): g.kill()
t0=_time.time()
try:
    run_state_machine_as_test(seed(1)(M), settings=settings(max_examples=2000, stateful_step_count=8, deadline=None, database=None, phases=[Phase.generate, Phase.shrink]))
    print("no failure")
except AssertionError as e:
    print("FOUND", str(e)[:200])
except Exception as e:
    import traceback; traceback.print_exc()
print(round(_time.time()-t0,1),"s")
