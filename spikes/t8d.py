import os, sys, shutil, logging
from mwlib.network import fetch
from mwlib.network.siteinfo import get_siteinfo
from mwlib.core import metabook, wiki
from mwlib.apps.buildzip import zip_dir
from mwlib.utils.status import Status
from PIL import Image
def render(txt, tag):
    shutil.rmtree('nw9', ignore_errors=True)
    fs = fetch.FsOutput('nw9'); fs.write_siteinfo(get_siteinfo('en'))
    mb = metabook.Collection(title="B"); mb.append_article("Art0"); fs.dump_json(metabook=mb)
    fs.nfo = {"format":"nuwiki","base_url":"http://example.org/w/","script_extension":".php"}
    fs.write_pages({"pages": {"1": {"title": "Art0", "ns":0, "revisions":[{"revid": 100, "*": txt}]}}})
    p = fs.get_imagepath("File:Img1.png"); Image.new("RGB",(120,80),(200,30,30)).save(p, "PNG")
    fs.set_db_key("imageinfo", "File:Img1.png", {"url":"http://example.org/images/Img1.png","descriptionurl":"http://example.org/wiki/File:Img1.png","width":120,"height":80})
    fs.write_redirects({}); fs.write_licenses([]); fs.write_authors(); fs.write_html(); fs.imageinfo.close(); fs.close()
    z = zip_dir('nw9', 'nw9.zip'); env = wiki.make_wiki(z)
    from mwlib.writers.rl.writer import writer
    logging.disable(logging.CRITICAL)
    st=Status(None); st.stdout=None
    writer(env, output='out9.pdf', status_callback=st)
    from pypdf import PdfReader
    t = " ".join(p.extract_text() for p in PdfReader('out9.pdf').pages)
    print(tag, [w for w in ("capA","capB","capC","wordD") if w in t])
    env.wiki.clear()
render("wordD\n<gallery>\nFile:Img1.png|capA\nFile:Img1.png|capB\n</gallery>\n", "gallery")
render("wordD\n{|\n|-\n| [[File:Img1.png|thumb|capA]] || x\n|-\n| y || [[File:Img1.png|thumb|capB]]\n|}\n", "tablethumb")
render("wordD [[File:Img1.png|thumb|capA]]\n\npara [[File:Img1.png|thumb|left|capB]] [[File:Img1.png|frame|capC]]\n", "thumbs")
