import gevent, pickle
from qs import jobs, qserve
class FakeTime:
    def __init__(s): s.t=1000.0
    def time(s): return s.t
    def __getattr__(s, n): import time; return getattr(time, n)
ft = FakeTime(); jobs.time = ft
choices=[]
class FakeRandom:
    def choice(s, alts):
        choices.append(len(alts)); return alts[0]
jobs.random = FakeRandom()
def settle():
    # yield until no greenlet is runnable
    for _ in range(50): gevent.sleep(0)
wq = jobs.workq()
class P(qserve.QPlugin):
    workq = wq
w1 = P(); w2=P(); cl=P()
res = {}
def pull(name, plugin, ch):
    res[name] = plugin.rpc_qpull(ch)
g1 = gevent.spawn(pull, 'w1', w1, ['a'])
settle()
print("waiters", len(wq._waiters))
cl.rpc_qadd('a', jobid='j1'); cl.rpc_qadd('a', jobid='j2')
settle()
print("w1 got", res.get('w1',{}).get('jobid'), "queue a:", [j.jobid for j in wq.channel2q.get('a',[])], "id2job", list(wq.id2job))
# is j1 lost?
g2 = gevent.spawn(pull, 'w2', w2, ['a']); settle()
print("w2 got", res.get('w2',{}).get('jobid'), g2.ready())
g2.kill()
# C17: timeout then disconnect hands done job to blocked puller
wq2 = jobs.workq()
class P2(qserve.QPlugin):
    workq = wq2
a=P2(); b=P2(); c=P2()
c.rpc_qadd('a', jobid='t1', timeout=10)
r={}
ga = gevent.spawn(lambda: r.__setitem__('a', a.rpc_qpull(['a']))); settle()
ft.t += 100; wq2.handletimeouts()
print("t1 state", wq2.id2job['t1'].done, wq2.id2job['t1'].error)
gb = gevent.spawn(lambda: r.__setitem__('b', b.rpc_qpull(['a']))); settle()
a.shutdown(); settle()
print("b got", r.get('b'))
