import logging, sys, time
logging.disable(logging.CRITICAL)
from mwlib.parser.refine.uparser import parse_string
from mwlib.parser.expander import DictDB
from mwlib.parser import advtree
from mwlib.parser.treecleaner import TreeCleaner
wr = [("<div>","</div>"),("<b>","</b>"),("<span>","</span>"),("[[a|","]]"),("{{#if:x|","}}"),("{|\n|","\n|}"),("<table><tr><td>","</td></tr></table>"),("<ul><li>","</li></ul>"),("<blockquote>","</blockquote>"),("<ref>","</ref>"),("'''","'''"),("<center>","</center>"),("<dl><dd>","</dd></dl>"),("{{T|","}}"),("<poem>","</poem>"),("<gallery>\nFile:x.png|","\n</gallery>"),("[http://x.org ","]"),("<small>","</small>"),("<p>","</p>"),("<pre>","</pre>"),("<nowiki>","</nowiki>")]
class DB(DictDB):
    def get_url(s,*a,**k): return None
db=DB({"T":"x{{{1}}}y"})
for d in (10, 40, 41, 100):
    out=[]
    for o,c in wr:
        s = o*d + "w" + c*d
        for usedb in (False, True):
            try:
                t=parse_string(title="T", raw=s, wikidb=db if usedb else None, lang="en")
                advtree.build_advanced_tree(t)
                tc=TreeCleaner(t)
                for name in tc.cleaner_methods:
                    if name in ("fix_paragraphs","remove_scroll_elements","fix_region_list_tables"): continue
                    getattr(tc,name)(t)
            except Exception as e:
                out.append((o, usedb, type(e).__name__))
    # list prefixes
    for pre in ("*","#",":",";"):
        s="\n".join(pre*i+" w%d"%i for i in range(1,d+1))
        try:
            t=parse_string(title="T", raw=s, lang="en"); advtree.build_advanced_tree(t); TreeCleaner(t).clean_all()
        except Exception as e: out.append((pre,type(e).__name__))
    print(d, out)
