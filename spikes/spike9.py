import logging, sys, random, collections, re, html.entities
logging.disable(logging.CRITICAL)
from mwlib.parser.refine.uparser import parse_string
from mwlib.parser.expander import DictDB
from mwlib.core.nshandling import NsHandler
from mwlib.parser import nodes, advtree
import mwlib.parser.advtree as A
class DB(DictDB):
    def __init__(s,d): DictDB.__init__(s,d); s.nshandler=NsHandler(s.siteinfo)
    def get_url(s,*a,**k): return None
    def normalize_and_get_image_path(s,n): return None
    def select(s,a,b): return []
def dec(m):
    e=m.group(0)
    mm=re.fullmatch(r"&#([0-9]+);",e)
    if mm:
        v=int(mm.group(1)); return chr(v) if v<0x110000 else e
    mm=re.fullmatch(r"&#[xX]([0-9a-fA-F]+);",e)
    if mm:
        v=int(mm.group(1),16); return chr(v) if v<0x110000 else e
    mm=re.fullmatch(r"&([A-Za-z0-9]+);",e)
    if mm and mm.group(1) in html.entities.name2codepoint: return chr(html.entities.name2codepoint[mm.group(1)])
    return e
def strict_decode(s): return re.sub(r"&#?[A-Za-z0-9]+;", dec, s)
lex=["'''","''","[[","]]","{{","}}","{{{","}}}","|","=","==","\n","\n\n","\n*","\n#","\n:","\n {|","|}","\n|-","||","<b>","</b>","<i>","<div>","</div>","<br>","<ref>","</ref>","<!--","-->","&amp;","&lt;","&#65;","&#x41;","&nbsp;","&bogus;","&amp","&#;","&#x;","&#1114112;","&#xD800;","&#0;","a","b c"," ","{{T}}","{{{1}}}","[http://x.org y]","http://a.b","<includeonly>","</includeonly>","<noinclude>","</noinclude>","<onlyinclude>","</onlyinclude>","<nowiki>","</nowiki>","<pre>","</pre>","<math>","</math>","<source>","</source>","<timeline>","</timeline>","<syntaxhighlight>","</syntaxhighlight>","----","~~~~","__TOC__","\t","<","> ","</","<gallery>","</gallery>","[[File:x.png|thumb|","","é","😀"]
tags=["nowiki","pre","math","source","syntaxhighlight","timeline"]
ctxs={"top":"AA %s ZZ","item":"* AA %s ZZ\n","cell":"{|\n|-\n| AA %s ZZ\n|}\n","bold":"'''AA %s ZZ'''","hb":"<b>AA %s ZZ</b>","targ":"{{E|AA %s ZZ}}","head":"== AA %s ZZ ==\n","afterlink":"[[ AA %s ZZ"}
rng=random.Random(int(sys.argv[1])); N=int(sys.argv[2]); b=collections.Counter(); ex={}
for i in range(N):
    tag=rng.choice(tags); body="".join(rng.choice(lex) for _ in range(rng.randint(0,8)))
    if re.search(r"</%s\s*>"%tag, body, re.I) or "\x7f" in body: continue
    if tag=="pre" and re.search(r"<nowiki", body, re.I): continue
    cname=rng.choice(list(ctxs)); usedb=rng.random()<.5 or cname=="targ"
    src=ctxs[cname]%("<%s>%s</%s>"%(tag,body,tag))
    db=DB({"E":"{{{1}}}","T":"TT"})
    try: t=parse_string(title="P", raw=src, wikidb=db if usedb else None, lang="en")
    except Exception as e:
        k=("EXC",tag,type(e).__name__); b[k]+=1; ex.setdefault(k,src); continue
    got=None; others=[]
    for n in t.allchildren():
        c=n.__class__
        if tag in("math",) and c is nodes.Math: got=n.caption
        elif tag=="timeline" and c is nodes.Timeline: got=n.caption
        elif tag in("source","syntaxhighlight") and c is nodes.TagNode and n.caption=="source": got="".join(x.caption for x in n.children if x.__class__ is nodes.Text)
        elif tag=="pre" and c is nodes.PreFormatted and n.caption=="pre": got="".join(x.caption for x in n.children if x.__class__ is nodes.Text)
    if tag=="nowiki":
        alltext="".join(n.caption for n in t.allchildren() if n.__class__ is nodes.Text)
        want=strict_decode(body)
        ok = want in alltext
        # and no markup nodes created from body: compare node class multiset with body-less version
    else:
        want = strict_decode(body) if tag=="pre" else body
        ok = got==want
    if not ok:
        # classify
        why=[]
        if re.search(r"</?(includeonly|noinclude|onlyinclude)",body): why.append("incl")
        if tag=="syntaxhighlight" and "</source>" in body: why.append("srcclose")
        if re.search(r"&#[^;]*[^0-9a-fA-FxX;][^;]*;|&[^;&<]*[^A-Za-z0-9#;][^;&<]*;",body): why.append("entity?")
        if "" in body: why.append("ebad")
        k=("MISMATCH",tag,cname if not why else "-",usedb if not why else "-",tuple(why)); b[k]+=1
        if k not in ex or len(src)<len(ex[k][0]): ex[k]=(src,want,got)
print(N)
for k,v in b.most_common(40): print(v,k,repr(ex[k])[:260])
