import os, sys, json, logging, shutil, copy
os.environ["MWLIB_HTTP2_ENABLED"]="false"; os.environ["MWLIB_FETCH_MAX_REQUESTS_PER_SECOND"]="0"
logging.disable(logging.CRITICAL)
from urllib import parse
import gevent
from mwlib.network import sapi, fetch
from mwlib.network.siteinfo import get_siteinfo
from mwlib.apps import make_nuwiki as mn
from mwlib.core import metabook, nuwiki
from mwlib.utils.status import Status

SI = get_siteinfo("en")
# model
PAGES = {
  "Art1": dict(ns=0, id=1, revs=[(11,"old art1"),(12,"Body1 {{T1}} [[File:Img1.png|thumb|c]]")], templates=["Template:T1","Template:T2"], images=["File:Img1.png","File:Img2.png"], contrib=(["Alice","SomeBot"],2)),
  "Art2": dict(ns=0, id=2, revs=[(21,"Body2 {{T2}}")], templates=["Template:T2"], images=["File:Img2.png"], contrib=(["Bob"],0)),
  "Template:T1": dict(ns=10, id=3, revs=[(31,"t1 {{T2}}")], templates=["Template:T2"], images=[], contrib=(["Carol"],0)),
  "Template:T2": dict(ns=10, id=4, revs=[(41,"t2 [[File:Img2.png]]")], templates=[], images=["File:Img2.png"], contrib=(["Dan"],1)),
  "Red": dict(ns=0, id=5, revs=[(51,"#REDIRECT [[Art2]]")], templates=[], images=[], redirect="Art2", contrib=([],0)),
  "File:Img1.png": dict(ns=6, id=6, revs=[(61,"desc1 {{Information|Author=X}}")], templates=[], images=[], contrib=(["Eve"],0)),
  "File:Img2.png": dict(ns=6, id=7, revs=[(71,"desc2")], templates=[], images=[], contrib=(["Frank"],3)),
}
EXP = {"Art1":"Body1 t1 t2 [[File:Img2.png]] [[File:Img1.png|thumb|c]]", "Art2":"Body2 t2 [[File:Img2.png]]"}
LOG=[]
def rev_by_id(rid):
    for t,p in PAGES.items():
        for r,txt in p["revs"]:
            if r==rid: return t,p,txt
def expand(text):
    # tiny expander for spike
    import re
    def rep(m):
        name=m.group(1)
        if name.startswith(":"): name=name[1:]
        else:
            if name not in PAGES: name="Template:"+name
        p=PAGES.get(name)
        if not p: return ""
        if p.get("redirect"): p=PAGES[p["redirect"]]
        return expand(p["revs"][-1][1])
    return re.sub(r"\{\{([^{}|]+)\}\}", rep, text)

class SynthApi(sapi.MwApi):
    def _fetch(self, url, method="GET", data=None, **kw):
        gevent.sleep(0)
        if method=="POST": q = dict(parse.parse_qsl(data.decode(), keep_blank_values=True))
        else: q = dict(parse.parse_qsl(parse.urlparse(url).query, keep_blank_values=True))
        LOG.append(q)
        return json.dumps(self.answer(q)).encode()
    def answer(self, q):
        a=q["action"]
        if a=="query" and q.get("meta")=="siteinfo":
            return {"query": {k: SI[k] for k in q["siprop"].split("|") if k in SI}}
        if a=="expandtemplates":
            return {"expandtemplates": {"wikitext": expand(q["text"])}}
        if a=="parse":
            return {"parse": {"text": {"*": "<div>x</div>"}, "title": q.get("page","")}}
        if a=="query":
            pages={}; redirects=[]
            titles=[t for t in q.get("titles","").split("|") if t]
            revids=[int(r) for r in q.get("revids","").split("|") if r]
            sel=[]
            for t in titles:
                p=PAGES.get(t)
                if p is None:
                    pages[str(-len(pages)-1)]={"title":t,"ns":0,"missing":""}; continue
                if p.get("redirect") and "redirects" in q:
                    redirects.append({"from":t,"to":p["redirect"]}); t=p["redirect"]; p=PAGES[t]
                sel.append((t,p,None))
            for r in revids:
                x=rev_by_id(r)
                if x: sel.append((x[0],x[1],r))
            props=q.get("prop","").split("|")
            for t,p,rid in sel:
                e=pages.setdefault(str(p["id"]),{"title":t,"ns":p["ns"],"pageid":p["id"]})
                if "revisions" in props:
                    rv = [x for x in p["revs"] if x[0]==rid] if rid else [p["revs"][-1]]
                    for r,txt in rv:
                        d={"revid":r}
                        if "content" in q.get("rvprop",""): d["*"]=txt; d["user"]="U"; d["timestamp"]="2020"
                        e.setdefault("revisions",[]).append(d)
                if "templates" in props: e["templates"]=[{"ns":10,"title":x} for x in p["templates"]]
                if "images" in props: e["images"]=[{"ns":6,"title":x} for x in p["images"]]
                if "categories" in props: pass
                if "imageinfo" in props:
                    e["imageinfo"]=[{"url":"http://wiki.test/images/"+t[5:], "thumburl":"http://wiki.test/thumb/"+t[5:], "descriptionurl":"http://wiki.test/wiki/"+t.replace(" ","_"), "size":10}]
                    e["fullurl"]="http://wiki.test/wiki/"+t
                if "contributors" in props:
                    names,anon=p["contrib"]; e["anoncontributors"]=anon; e["contributors"]=[{"userid":i,"name":n} for i,n in enumerate(names)]
            res={"query":{"pages":pages}}
            if redirects: res["query"]["redirects"]=redirects
            return res
        raise RuntimeError("unhandled %r"%q)
sapi.MwApi = SynthApi
class Resp:
    def __init__(s,b): s.b=b
    def __enter__(s): return s
    def __exit__(s,*a): return False
    def raise_for_status(s): pass
    def iter_bytes(s, chunk_size=16384):
        for i in range(0,len(s.b),3): yield s.b[i:i+3]
class Client:
    def stream(s, m, url): return Resp(("IMG:"+url).encode())
fetch._get_download_client = lambda url: Client()

mb = metabook.Collection(title="B")
mb.append_article("Art1"); mb.append_article("Art2", revision=21); mb.append_article("Red"); mb.append_article("Nope")
mb.wikis.append(metabook.WikiConf(baseurl="http://wiki.test/w/"))
shutil.rmtree("out", ignore_errors=True)
st = Status(None); st.stdout=None
with gevent.Timeout(30):
    mn.make_nuwiki("out", metabook=mb, wiki_options={"script_extension": ".php", "imagesize": 800}, pod_client=None, status=st)
w = nuwiki.Adapt("out")
for t in ["Art1","Art2","Red","Nope","Template:T1"]:
    p = w.get_page(t); print(t, "->", None if p is None else (p.title, p.rawtext, getattr(p,'expanded',None)))
print("redirects", w.redirects)
print("images", sorted(os.listdir("out/images")))
print("imageinfo", dict(w.nuwiki.imageinfo.items()) if hasattr(w.nuwiki.imageinfo,'items') else w.nuwiki.imageinfo)
print("authors Art1", w.get_authors("Art1"), "img", w.get_authors("File:Img2.png"))
print("desc page", w.get_page("File:Img1.png") and w.get_page("File:Img1.png").rawtext)
print(len(LOG), "requests")
for q in LOG[:60]: print({k:v for k,v in q.items() if k not in("format",)})
