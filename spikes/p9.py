import logging
logging.disable(logging.CRITICAL)
from mwlib.parser.refine.uparser import parse_string
from mwlib.parser.expander import DictDB
from mwlib.parser import nodes
class DB(DictDB):
    def get_url(self, *a, **k): return None
def texts(t):
    return [(n.__class__.__name__, n.caption) for n in t.allchildren() if n.__class__.__name__ in ("Text","Math","Timeline","PreFormatted","TagNode","Source")]
for raw in ["<nowiki><includeonly>x</includeonly></nowiki>", "<nowiki><noinclude>x</noinclude></nowiki>", "<nowiki>a<onlyinclude>b</onlyinclude>c</nowiki>", "<syntaxhighlight lang=c>x</source>'''b'''</syntaxhighlight>", "<source lang=c>a'''b'''{{T}}<!-- c --></source>", "<math>a'''b'''{{T}}<!-- c --></math>", "<pre>a'''b'''{{T}}<!-- c -->&amp;&#65;&#6_5;&#+65;</pre>", "<nowiki>&#6_5;&#+65;&# 65;&amp</nowiki>", "{{E|<nowiki>a|b=c}}</nowiki>}}", "<timeline>a'''b'''</timeline>", "<nowiki>a\x7fb</nowiki>", "<NOWIKI>x</nowiki >", "<nowiki >'''x'''</nowiki>", "<nowiki\n>'''x'''</nowiki>", "<nowiki/>'''x'''", "<pre><nowiki>x</nowiki></pre>", "<math>\n</math>", "<pre>\n x\n</pre>"]:
    for db in (None, DB({"T":"TT", "E":"{{{1}}}"})):
        try:
            t = parse_string(title='T', raw=raw, wikidb=db, lang='en')
            print(repr(raw), db is not None, texts(t))
        except Exception as e:
            print(repr(raw), db is not None, "EXC", type(e).__name__, e)
