import logging, sys, random, collections, re
logging.disable(logging.CRITICAL)
from mwlib.parser.refine.uparser import parse_string
from mwlib.parser.dummydb import DummyDB
from mwlib.parser import advtree, nodes
from mwlib.parser.treecleaner import TreeCleaner
from mwlib.network.siteinfo import get_siteinfo
import mwlib.parser.advtree as A
STY = {"b":("'''","'''","Strong"),"i":("''","''","Emphasized"),"hb":("<b>","</b>","Strong"),"hs":("<strong>","</strong>","Strong"),"hi":("<i>","</i>","Emphasized"),"he":("<em>","</em>","Emphasized"),"u":("<u>","</u>","Underline"),"sup":("<sup>","</sup>","Sup"),"sub":("<sub>","</sub>","Sub"),"small":("<small>","</small>","Small"),"big":("<big>","</big>","Big"),"s":("<s>","</s>","Strike"),"tt":("<tt>","</tt>","Teletyped"),"cite":("<cite>","</cite>","Cite"),"del":("<del>","</del>","Deleted"),"ins":("<ins>","</ins>","Inserted")}
STYCLS = set(v[2] for v in STY.values())
class G:
    def __init__(s, rng, lang): s.r=rng; s.n=0; s.lang=lang; s.si=get_siteinfo(lang)
    def w(s): s.n+=1; return "wq%05dx"%s.n
    def inline(s, depth, ctx):
        r=s.r; parts=[]; words=[]
        for _ in range(r.randint(1,3)):
            k = r.choice(["t","t","t"]+list(STY)+["bi","link","nslink","ext","ref","barelink"]) if depth<2 else "t"
            if k=="t":
                w=s.w(); parts.append(w); words.append((w,ctx))
            elif k in STY or k=="bi":
                if k=="bi":
                    if "Strong" in ctx or "Emphasized" in ctx: continue
                    o,c,cl=("'''''","'''''",("Strong","Emphasized"))
                else:
                    o,c,cl=STY[k]; cl=(cl,)
                    if cl[0] in ctx: continue
                    if k in("b","i") and ("Strong" in ctx or "Emphasized" in ctx) and any(x in ctx for x in ("Strong","Emphasized")) and False: continue
                t,ws=s.inline(depth+1, ctx+cl); parts.append(o+t+c); words+=ws
            elif k=="link":
                if any(c.startswith("Link") for c in ctx): continue
                w=s.w(); tgt="Tgt "+w; parts.append(f"[[{tgt}|{w}]]"); words.append((w,ctx+("Link:"+tgt,)))
            elif k=="barelink":
                if any(c.startswith("Link") for c in ctx): continue
                w=s.w(); w2=w.capitalize(); parts.append(f"[[{w2}]]"); words.append((w2,ctx+("Link:"+w2,)))
            elif k=="nslink":
                if any(c.startswith("Link") for c in ctx): continue
                w=s.w(); ns=s.r.choice(["12","4","14","10"]); nsn=s.si["namespaces"][ns]["*"]; tgt=f"{nsn}:X{w}"; parts.append(f"[[:{tgt}|{w}]]"); words.append((w,ctx+("Link:"+tgt,)))
            elif k=="ext":
                if any(c.startswith("Link") for c in ctx): continue
                w=s.w(); parts.append(f"[http://x.org/{w} {w}]"); words.append((w,ctx+("Link:http://x.org/"+w,)))
            elif k=="ref":
                if "Ref" in ctx or any(c.startswith("Link") for c in ctx): continue
                t,ws=s.inline(depth+1, ctx+("Ref",)); nm = s.r.choice(["", ' name="n%d"'%s.n, " name=n%d"%s.n]); parts.append(f"<ref{nm}>"+t+"</ref>"); words+=ws
        if not parts:
            w=s.w(); parts.append(w); words.append((w,ctx))
        return " ".join(parts), words
    def lst(s, prefix, ctx, depth):
        out=[]; words=[]; kind=s.r.choice("*#")
        for _ in range(s.r.randint(1,3)):
            c2=ctx+("List:"+kind,"Item"); t,ws=s.inline(1,c2); out.append(prefix+kind+s.r.choice([" ",""])+t); words+=ws
            if depth<2 and s.r.random()<.3:
                o,ws=s.lst(prefix+kind,c2,depth+1); out+=o; words+=ws
        return out,words
    def htmllist(s, ctx):
        kind=s.r.choice("*#"); tag="ul" if kind=="*" else "ol"; out=["<%s>"%tag]; words=[]
        for _ in range(s.r.randint(1,3)):
            t,ws=s.inline(1,ctx+("List:"+kind,"Item")); out.append("<li>"+t+"</li>"); words+=ws
        out.append("</%s>"%tag); return out,words
    def cellcontent(s, ctx, depth):
        k=s.r.choice(["i","i","i","l","t"] if depth<1 else ["i"])
        if k=="i": t,ws=s.inline(1,ctx); return [t],ws,True
        if k=="l": o,ws=s.lst("",ctx,1); return [""]+o,ws,False
        o,ws=s.table(ctx,depth+1); return [""]+o,ws,False
    def table(s, ctx, depth=0):
        out=["{|"+s.r.choice([""," class=\"wikitable\""," border=1"])]; words=[]; c0=ctx+("Table",)
        if s.r.random()<.3:
            t,ws=s.inline(2,c0+("Caption",)); out.append("|+ "+t); words+=ws
        ncol=s.r.randint(1,3)
        for ri in range(s.r.randint(1,3)):
            if ri>0 or s.r.random()<.7: out.append("|-"+s.r.choice([""," style=\"x:y\""]))
            hdr = ri==0 and s.r.random()<.5
            cells=[]; inl=True
            for ci in range(ncol):
                o,ws,i1=s.cellcontent(c0+("Row","Cell:h" if hdr else "Cell:d"), depth); cells.append(o); words+=ws; inl=inl and i1
            m="!" if hdr else "|"
            if inl and s.r.random()<.5:
                out.append(m+" "+(" "+m+m+" ").join(c[0] for c in cells))
            else:
                for c in cells:
                    attr=s.r.choice([""," align=left |",' style="a:b" |'])
                    out.append(m+attr+" "+c[0]); out+=c[1:]
        out.append("|}"); return out,words
    def htmltable(s, ctx):
        out=["<table>"]; words=[]; c0=ctx+("Table",)
        for ri in range(s.r.randint(1,3)):
            out.append("<tr>"); hdr=ri==0 and s.r.random()<.5
            for ci in range(s.r.randint(1,3)):
                t,ws=s.inline(1,c0+("Row","Cell:h" if hdr else "Cell:d")); tg="th" if hdr else "td"; out.append(f"<{tg}>{t}</{tg}>"); words+=ws
            out.append("</tr>")
        out.append("</table>"); return out,words
    def blocks(s, ctx, n):
        out=[]; words=[]
        for _ in range(n):
            k=s.r.choice(["p","p","p2","l","hl","t","ht","pre","dl","dl2","ind"])
            if k=="p":
                t,ws=s.inline(0,ctx); out.append(t); words+=ws
            elif k=="p2":
                t,ws=s.inline(0,ctx); t2,ws2=s.inline(0,ctx); out+=[t,t2]; words+=ws+ws2
            elif k=="l": o,ws=s.lst("",ctx,0); out+=o; words+=ws
            elif k=="hl": o,ws=s.htmllist(ctx); out+=o; words+=ws
            elif k=="t": o,ws=s.table(ctx); out+=o; words+=ws
            elif k=="ht": o,ws=s.htmltable(ctx); out+=o; words+=ws
            elif k=="pre":
                w=s.w(); w2=s.w(); out+=[" "+w," "+w2]; words+=[(w,ctx+("Pre",)),(w2,ctx+("Pre",))]
            elif k=="dl":
                t1,w1=s.inline(2,ctx+("DT",)); t2,w2=s.inline(2,ctx+("DD",)); out.append("; "+t1+" : "+t2); words+=w1+w2
            elif k=="dl2":
                t1,w1=s.inline(2,ctx+("DT",)); t2,w2=s.inline(2,ctx+("DD",)); out+=[";"+t1, ":"+t2]; words+=w1+w2
            elif k=="ind":
                t1,w1=s.inline(1,ctx+("DD",)); t2,w2=s.inline(1,ctx+("DD","DD")); out+=[": "+t1, ":: "+t2]; words+=w1+w2
            out += [""]*s.r.randint(1,2)
        return out,words
    def doc(s):
        out,words=s.blocks((), s.r.randint(0,2)); stack=[]
        for _ in range(s.r.randint(0,4)):
            lvl=s.r.randint(2,5)
            while stack and stack[-1]>=lvl: stack.pop()
            stack.append(lvl); ctx=tuple("Sec:%d"%l for l in stack)
            t,ws=s.inline(1, ctx+("Heading",)); sp=s.r.choice([" ",""]); out.append("="*lvl+sp+t+sp+"="*lvl+s.r.choice([""," "])); words+=ws
            o,ws=s.blocks(ctx, s.r.randint(1,3)); out+=o; words+=ws
        return "\n".join(out)+"\n", words
CLSMAP={A.Strong:"Strong",A.Emphasized:"Emphasized",A.Underline:"Underline",A.Sup:"Sup",A.Sub:"Sub",A.Small:"Small",A.Big:"Big",A.Strike:"Strike",A.Teletyped:"Teletyped",A.Cite:"Cite",A.Deleted:"Deleted",A.Inserted:"Inserted",A.Table:"Table",A.Row:"Row",A.Item:"Item",A.Reference:"Ref",A.PreFormatted:"Pre",A.DefinitionTerm:"DT",A.DefinitionDescription:"DD",nodes.Caption:"Caption",A.TableCaption:"Caption"}
def chain_of(node):
    ch=[]; p=node
    while p is not None:
        c=p.__class__; par=p.parent
        if c in CLSMAP: ch.append(CLSMAP[c])
        elif c is A.Section: ch.append("Sec:%d"%p.level)
        elif c is A.ItemList: ch.append("List:"+("#" if getattr(p,'numbered',False) else "*"))
        elif c is A.Cell: ch.append("Cell:h" if getattr(p,'is_header',False) else "Cell:d")
        elif c in (A.ArticleLink, A.NamespaceLink): ch.append("Link:"+p.target)
        elif c is nodes.NamedURL: ch.append("Link:"+p.caption)
        elif c is nodes.Node and par is not None and par.__class__ is A.Section and par.children[0] is p: ch.append("Heading")
        p=par
    ch.reverse(); return tuple(ch)
def observed(tree):
    res=[]
    for n in tree.allchildren():
        if n.__class__ is nodes.Text:
            for w in re.findall(r"[Ww]q\d+x", n.caption): res.append((w, chain_of(n)))
        elif n.__class__ in (A.ArticleLink,A.NamespaceLink) and not n.children:
            for w in re.findall(r"[Ww]q\d+x", n.target): res.append((w, chain_of(n)))
    return res
def norm(ch):
    st=sorted(c for c in ch if c in STYCLS); return tuple(c for c in ch if c not in STYCLS)+tuple(st)
rng=random.Random(int(sys.argv[1])); N=int(sys.argv[2]); bad=collections.Counter(); ex={}
langs="de en es fr it ja nl no pl pt simple sv".split()
for i in range(N):
    lang=rng.choice(langs); g=G(rng,lang); src,exp=g.doc()
    t=parse_string(title='T', raw=src, wikidb=DummyDB(lang), lang=lang); advtree.build_advanced_tree(t)
    obs=observed(t); e=[(w,norm(c)) for w,c in exp]; o=[(w,norm(c)) for w,c in obs]
    if e!=o:
        if [w for w,_ in e]!=[w for w,_ in o]: k=("order/loss",)
        else:
            a,b=[(a,b) for a,b in zip(e,o) if a!=b][0]; k=("chain", tuple(sorted(set(a[1])^set(b[1])))[:3])
        bad[k]+=1
        if k not in ex or len(src)<len(ex[k][0]): ex[k]=(src,[(a,b) for a,b in zip(e,o) if a!=b][:2])
    if "clean" in sys.argv:
        TreeCleaner(t).clean_all(); o2=observed(t)
        if [w for w,_ in o2]!=[w for w,_ in obs]:
            k=("clean-loss",); bad[k]+=1
            if k not in ex or len(src)<len(ex[k][0]): ex[k]=(src, sorted(set(w for w,_ in obs)-set(w for w,_ in o2)))
print(N, {str(k):v for k,v in bad.items()})
for k,(s,d) in sorted(ex.items(), key=lambda kv:-bad[kv[0]])[:12]:
    print("=====",k,bad[k]); print(s); print(d)
# breakdown of clean-loss
rng=random.Random(99); cl=collections.Counter(); exs={}
for i in range(4000):
    lang=rng.choice(langs); g=G(rng,lang); src,exp=g.doc()
    t=parse_string(title='T', raw=src, wikidb=DummyDB(lang), lang=lang); advtree.build_advanced_tree(t)
    obs=observed(t); TreeCleaner(t).clean_all(); o2=observed(t)
    w1=[w for w,_ in obs]; w2=[w for w,_ in o2]
    if w1!=w2:
        lost=set(w1)-set(w2); d=dict(exp)
        kinds=tuple(sorted(set("caption" if "Caption" in d.get(w,()) else "other" for w in lost))) or ("reorder/dup",)
        cl[kinds]+=1
        if kinds not in exs or len(src)<len(exs[kinds][0]): exs[kinds]=(src,sorted(lost), [w for w in w2 if w2.count(w)>1][:3])
print(dict(cl))
for k,v in exs.items(): print("=====",k); print(v[0]); print(v[1:])
