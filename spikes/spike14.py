import logging, sys, os, shutil, random, tempfile
logging.disable(logging.CRITICAL)
from mwlib.network import fetch
from mwlib.network.siteinfo import get_siteinfo
from mwlib.core import metabook, wiki
from mwlib.apps.buildzip import zip_dir
from hypothesis import given, settings, strategies as st, HealthCheck
import hypothesis
si = get_siteinfo('de')
textst = st.text(alphabet=st.characters(blacklist_categories=('Cs',)), max_size=40)
titlest = st.text(alphabet=st.sampled_from(list("abcXYZ éß日 -._~09")), min_size=1, max_size=8).map(lambda s: s.strip()).filter(lambda s: s and not s.startswith(":"))
@settings(max_examples=300, deadline=None, database=None, suppress_health_check=list(HealthCheck))
@given(st.lists(st.tuples(st.sampled_from([0,10,6,14]), titlest, textst), min_size=1, max_size=4, unique_by=lambda x:(x[0],x[1].lower())))
def test(pages):
    d = tempfile.mkdtemp(dir='/tmp/x')
    try:
        fs = fetch.FsOutput(os.path.join(d,'nw'))
        fs.write_siteinfo(si)
        fs.nfo = {"format":"nuwiki","base_url":"http://example.org/w/","script_extension":".php"}
        from mwlib.core.nshandling import NsHandler
        h = NsHandler(si)
        exp = {}
        for i,(ns,t,txt) in enumerate(pages):
            full = h.splitname(t, ns)[2]
            if "\n\x0c --page-- " in txt: continue
            fs.write_pages({"pages": {str(i): {"title": full, "ns":ns, "revisions":[{"revid": 100+i, "*": txt}]}}})
            exp[(full,100+i)] = txt
        fs.write_redirects({}); fs.write_licenses([]); fs.dump_json(metabook=metabook.Collection())
        fs.write_authors(); fs.write_html(); fs.imageinfo.close(); fs.close()
        z = zip_dir(os.path.join(d,'nw'), os.path.join(d,'nw.zip'))
        env = wiki.make_wiki(z)
        w = env.wiki
        try:
            for (full,rev),txt in exp.items():
                p = w.get_page(full)
                assert p is not None and p.rawtext == txt, (full, txt, p and p.rawtext)
                p = w.get_page(None, rev)
        finally:
            w.clear()
    finally:
        shutil.rmtree(d, ignore_errors=True)
test()
print("ok")
