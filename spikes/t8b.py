import mwlib.writers.rl.toc as toc
from mwlib.writers.rl import pdfstyles
def _gcw(self):
    from reportlab.pdfbase.pdfmetrics import stringWidth
    w = 40
    return [pdfstyles.PRINT_WIDTH - w - 30, w]
toc.TocRenderer._get_col_widths = _gcw
import sys; sys.argv = ["t8.py","rl"]
exec(open("t8.py").read())
