import sys, time, logging, traceback, collections, itertools, signal
logging.disable(logging.CRITICAL)
from mwlib.parser.expander import Expander, DictDB
from mwlib.parser.templ import magics, magic_nodes
from mwlib.network.siteinfo import get_siteinfo
names = set()
for n in dir(magics.MagicResolver):
    if n.startswith('_'): continue
    if n.upper()==n or n.startswith('#'): names.add(n)
names |= set(magic_nodes.registry)
si = get_siteinfo('de')
alias = set()
for m in si['magicwords']:
    for a in m['aliases']: alias.add(a)
print(len(names), len(alias))
shapes = ["", "abc", "7", "99999999999", "-3", "1.5", "1e9", "a/b/c", "{{PAGENAME}}", "999999999999999999999999"]
db = DictDB({})
buckets=collections.Counter(); ex={}
class TO(Exception): pass
def h(*a): raise TO()
signal.signal(signal.SIGALRM, h)
n=0
for name in sorted(names):
    for k in range(0,4):
        for args in itertools.product(shapes, repeat=k):
            for sep in ([":"] if k else ["", ":"]):
                if k==0: txt = "{{%s%s}}"%(name, sep)
                else: txt = "{{%s:%s}}"%(name, "|".join(args))
                n+=1
                signal.setitimer(signal.ITIMER_REAL, 2.0)
                try:
                    r = Expander(txt, pagename="Page/Sub", wikidb=db).expandTemplates()
                    assert isinstance(r,str)
                    if len(r) > 100000: raise ValueError("huge output %d"%len(r))
                except TO:
                    key=('TIMEOUT', name); buckets[key]+=1; ex.setdefault(key, txt)
                except Exception as e:
                    tb = traceback.extract_tb(e.__traceback__)
                    frs = [f for f in tb if '/repo/' in f.filename]
                    fr = frs[-1] if frs else tb[-1]
                    key=(type(e).__name__, name, fr.name, fr.lineno)
                    buckets[key]+=1
                    if key not in ex or len(txt)<len(ex[key]): ex[key]=txt
                finally:
                    signal.setitimer(signal.ITIMER_REAL, 0)
print(n,"cases")
for k,v in sorted(buckets.items()):
    print(v,k,repr(ex[k]))
