import logging, sys, random, collections, traceback
logging.disable(logging.CRITICAL)
from mwlib.parser.refine.uparser import parse_string
from mwlib.parser.dummydb import DummyDB
from mwlib.parser import advtree, nodes
from mwlib.parser.treecleaner import TreeCleaner
import mwlib.parser.advtree as A

class G:
    def __init__(s, rng): s.r=rng; s.n=0
    def w(s):
        s.n+=1; return f"w{s.n}"
    # inline: returns (wikitext, [(word, chain)])
    def inline(s, depth, ctx):
        r=s.r; parts=[]; words=[]
        for _ in range(r.randint(1,3)):
            k = r.choice(["t","t","b","i","bi","hb","hi","u","sup","link","ext","ref"] if depth<2 else ["t"])
            if k=="t":
                w=s.w(); parts.append(w); words.append((w,ctx))
            elif k in("b","i","hb","hi","u","sup","bi"):
                if k in ("b","hb") and "Strong" in ctx: k="u"
                if k in ("i","hi") and "Emphasized" in ctx: k="u"
                if k=="bi" and ("Strong" in ctx or "Emphasized" in ctx): k="u"
                if k in ("b","i","bi") and s.noquote: k = {"b":"hb","i":"hi","bi":"u"}[k]
                o,c,cl = {"b":("'''","'''",("Strong",)),"i":("''","''",("Emphasized",)),"hb":("<b>","</b>",("Strong",)),"hi":("<i>","</i>",("Emphasized",)),"u":("<u>","</u>",("Underline",)),"sup":("<sup>","</sup>",("Sup",)),"bi":("'''''","'''''",("Strong","Emphasized"))}[k]
                if k in("u","sup") and cl[0] in ctx: 
                    w=s.w(); parts.append(w); words.append((w,ctx)); continue
                t,ws = s.inline(depth+1, ctx+cl)
                parts.append(o+t+c); words+=ws
            elif k=="link":
                if any(c.startswith("Link") for c in ctx): continue
                w=s.w(); tgt="Tgt "+w; parts.append(f"[[{tgt}|{w}]]"); words.append((w,ctx+("Link:"+tgt,)))
            elif k=="ext":
                if any(c.startswith("Link") for c in ctx): continue
                w=s.w(); parts.append(f"[http://x.org/{w} {w}]"); words.append((w,ctx+("Link:http://x.org/"+w,)))
            elif k=="ref":
                if "Ref" in ctx or any(c.startswith("Link") for c in ctx): continue
                t,ws=s.inline(depth+1, ctx+("Ref",)); parts.append("<ref>"+t+"</ref>"); words+=ws
        if not parts:
            w=s.w(); parts.append(w); words.append((w,ctx))
        return " ".join(parts), words
    def lst(s, prefix, ctx, depth):
        out=[]; words=[]
        kind = s.r.choice("*#")
        for _ in range(s.r.randint(1,3)):
            c2 = ctx+("List:"+kind,"Item")
            t,ws = s.inline(1,c2); out.append(prefix+kind+" "+t); words+=ws
            if depth<2 and s.r.random()<.3:
                o,ws = s.lst(prefix+kind, c2, depth+1); out+=o; words+=ws
        return out, words
    def table(s, ctx):
        out=["{| class=\"wikitable\""]; words=[]
        ncol=s.r.randint(1,3)
        for ri in range(s.r.randint(1,3)):
            out.append("|-")
            hdr = ri==0 and s.r.random()<.5
            cells=[]
            for ci in range(ncol):
                t,ws=s.inline(1, ctx+("Table","Row","Cell:h" if hdr else "Cell:d")); cells.append(t); words+=ws
            if s.r.random()<.5:
                out.append(("! " if hdr else "| ")+(" !! " if hdr else " || ").join(cells))
            else:
                for c in cells: out.append(("! " if hdr else "| ")+c)
        out.append("|}")
        return out, words
    def blocks(s, ctx, n):
        out=[]; words=[]
        for _ in range(n):
            k=s.r.choice(["p","p","l","t","pre","dl"])
            if k=="p":
                t,ws=s.inline(0,ctx); out.append(t); out.append(""); words+=ws
            elif k=="l":
                o,ws=s.lst("",ctx,0); out+=o; out.append(""); words+=ws
            elif k=="t":
                o,ws=s.table(ctx); out+=o; out.append(""); words+=ws
            elif k=="pre":
                w=s.w(); out.append(" "+w); out.append(""); words.append((w,ctx+("Pre",)))
            elif k=="dl":
                s.noquote=False
                t1,w1=s.inline(2,ctx+("DT",)); t2,w2=s.inline(2,ctx+("DD",)); out.append("; "+t1+" : "+t2); out.append(""); words+=w1+w2
        return out, words
    def doc(s):
        s.noquote=False
        out,words = s.blocks((), s.r.randint(0,2))
        stack=[]
        for _ in range(s.r.randint(0,4)):
            lvl=s.r.randint(2,4)
            while stack and stack[-1]>=lvl: stack.pop()
            stack.append(lvl)
            ctx=tuple("Sec:%d"%l for l in stack)
            w=s.w(); out.append("="*lvl+" "+w+" "+"="*lvl); words.append((w,ctx+("Heading",)))
            o,ws=s.blocks(ctx, s.r.randint(1,3)); out+=o; words+=ws
        return "\n".join(out)+"\n", words

def chain_of(node):
    ch=[]
    p=node
    first=True
    while p is not None:
        c=p.__class__
        par = p.parent
        if c is A.Section: ch.append("Sec:%d"%p.level)
        elif c is A.ItemList: ch.append("List:"+("#" if getattr(p,'numbered',False) else "*"))
        elif c is A.Item: ch.append("Item")
        elif c is A.Table: ch.append("Table")
        elif c is A.Row: ch.append("Row")
        elif c is A.Cell: ch.append("Cell:h" if getattr(p,'is_header',False) else "Cell:d")
        elif c is A.Strong: ch.append("Strong")
        elif c is A.Emphasized: ch.append("Emphasized")
        elif c is A.Underline: ch.append("Underline")
        elif c is A.Sup: ch.append("Sup")
        elif c is A.ArticleLink: ch.append("Link:"+p.target)
        elif c is nodes.NamedURL: ch.append("Link:"+p.caption)
        elif c is A.Reference: ch.append("Ref")
        elif c is A.PreFormatted: ch.append("Pre")
        elif c is A.DefinitionTerm: ch.append("DT")
        elif c is A.DefinitionDescription: ch.append("DD")
        elif c is nodes.Node and par is not None and par.__class__ is A.Section and par.children[0] is p: ch.append("Heading")
        p=par
    ch.reverse()
    return tuple(ch)

import re
def observed(tree):
    res=[]
    for n in tree.allchildren():
        if n.__class__ is nodes.Text:
            for w in re.findall(r"w\d+", n.caption):
                res.append((w, chain_of(n)))
    return res
def norm(ch):
    # styles as sorted multiset at their position: move style names to end sorted
    st=sorted(c for c in ch if c in("Strong","Emphasized","Underline","Sup"))
    return tuple(c for c in ch if c not in ("Strong","Emphasized","Underline","Sup"))+tuple(st)

rng=random.Random(int(sys.argv[1])); N=int(sys.argv[2])
bad=collections.Counter(); ex={}
for i in range(N):
    g=G(rng); src,exp=g.doc()
    t=parse_string(title='T', raw=src, wikidb=DummyDB(), lang='en')
    advtree.build_advanced_tree(t)
    obs=observed(t)
    e=[(w,norm(c)) for w,c in exp]; o=[(w,norm(c)) for w,c in obs]
    if e!=o:
        # classify
        if [w for w,_ in e]!=[w for w,_ in o]: k="order/loss"
        else:
            d=[(a,b) for a,b in zip(e,o) if a!=b][0]
            k="chain"
        bad[k]+=1
        if k not in ex or len(src)<len(ex[k][0]): ex[k]=(src,[ (a,b) for a,b in zip(e,o) if a!=b][:3])
    if "clean" in sys.argv:
        tc=TreeCleaner(t); tc.clean_all()
        o2=observed(t)
        if [w for w,_ in o2]!=[w for w,_ in o]:
            bad["clean-loss"]+=1
            if "clean-loss" not in ex or len(src)<len(ex["clean-loss"][0]): ex["clean-loss"]=(src, sorted(set(w for w,_ in o)-set(w for w,_ in o2)))
print(N, dict(bad))
for k,(s,d) in ex.items():
    print("=====",k); print(s); print(d)
g=G(random.Random(11)); src,exp=g.doc()
print(src); print(exp[:6])
t=parse_string(title='T', raw=src, wikidb=DummyDB(), lang='en'); advtree.build_advanced_tree(t)
print(observed(t)[:6])
print(sum(1 for _ in exp))
