import sys, time, logging
logging.disable(logging.CRITICAL)
from mwlib.parser.refine.uparser import parse_string
from mwlib.parser.expander import DictDB
db = DictDB({})
def work(s, usedb=False):
    cnt=[0]
    def prof(frame, ev, arg):
        if ev in('call','c_call'): cnt[0]+=1
    sys.setprofile(prof)
    t=time.time()
    try:
        parse_string(title='T', raw=s, wikidb=db if usedb else None, lang='en')
        err=None
    except Exception as e:
        err=type(e).__name__
    finally:
        sys.setprofile(None)
    return cnt[0], time.time()-t, err
pats = ["[[", "]]", "{|", "|}", "'''", "''", "<b>", "</b>", "*", "\n*", "\n**a", "{{", "}}", "{{{", "<div>", "</div>", "[http://x ", "\n|-\n|", "\n{|\n|a\n", "<ref>", "=", "\n==", "==\n", "&amp;", "<table><tr><td>", "[[a|", "''a'''b", "\n:", "\n;a:b", "<li>", "<span>", "\n ", "<nowiki>", "<!--", "[[File:a|", "<br>", "----\n", "~", "__TOC__", "\x7fUNIQ-", "<ul><li>", "<p>", "<center>", "<blockquote>", "<h2>", "<gallery>\nFile:a|b\n</gallery>", "<math>x</math>", "<pre>", "{{#if:x|", "<dl><dt>", "<ol>","<code>","<sup>", "\n{|\n|-\n", "<td>", "<tr>", "<th>", "<caption>", "!!", "||", "\n!", "|+"]
for p in pats:
    res=[]
    for n in (50,100,200):
        w,t,e = work(p*n)
        res.append((w,round(t,3),e))
    r1 = res[1][0]/max(1,res[0][0]); r2=res[2][0]/max(1,res[1][0])
    flag = "  <<<<" if r2>4.5 else ""
    print(repr(p), res, round(r1,2), round(r2,2), flag)
