import sys, logging
sys.path.insert(0, "/tmp/x/deps")
import atheris
logging.disable(logging.CRITICAL)
with atheris.instrument_imports(include=["mwlib"]):
    from mwlib.parser.refine.uparser import parse_string
LEX = ["[[", "]]", "{|", "|}", "'''", "''", "<b>", "</b>", "\n*", "\n", "|", "=", "<div>", "</div>", "\n|-\n", "\n|", "<ref>", "</ref>", "\n== ", " ==\n", "&amp;", "<table>", "<tr>", "<td>", "a", " ", "\n:", "\n;", "<li>", "<nowiki>", "</nowiki>", "[http://x.org ", "]", "<br>", "----", "<math>", "</math>", "<pre>","</pre>", "\n ", "<gallery>", "</gallery>", "[[File:a.png|", "thumb|"]
n=[0]
def one(data):
    fdp = atheris.FuzzedDataProvider(data)
    k = fdp.ConsumeIntInRange(0, 40)
    s = "".join(LEX[fdp.ConsumeIntInRange(0, len(LEX)-1)] for _ in range(k))
    n[0]+=1
    parse_string(title="T", raw=s, lang="en")
atheris.Setup(sys.argv, one)
atheris.Fuzz()
