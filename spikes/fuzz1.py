import sys, time, logging, random, traceback, collections
logging.disable(logging.CRITICAL)
from mwlib.parser.refine.uparser import parse_string
from mwlib.parser.expander import DictDB
from mwlib.parser import advtree
from mwlib.parser.treecleaner import TreeCleaner
lex = ["[[", "]]", "{|", "|}", "'''", "''", "'''''", "<b>", "</b>", "*", "\n*", "\n#", "\n", "\n\n", "{{", "}}", "{{{", "}}}", "|", "=", "<div>", "</div>", "[http://x.org ", "]", "[", "\n|-\n", "\n|", "\n!", "||", "!!", "|+", "<ref>", "</ref>", "<ref name=a/>", "==", "\n== ", " ==\n", "&amp;", "&#65;", "&#x41;", "&#99999999999;", "&#xFFFFFFFFFF;", "&#0;", "&#xD800;", "<table>", "</table>", "<tr>", "<td>", "</td>", "</tr>", "<th>", "a", "b c", " ", "\n:", "\n;", ":", ";", "<li>", "</li>", "<ul>", "</ul>", "<ol>", "<span style=\"color:red\">", "</span>", "\n ", "<nowiki>", "</nowiki>", "<!--", "-->", "[[File:a.png|", "thumb|", "<br>", "<br/>", "----", "~~~~", "__TOC__", "\x7fUNIQ-a-1-abc-QINU\x7f", "<p>", "</p>", "<center>", "<blockquote>", "</blockquote>", "<h2>", "</h2>", "<gallery>", "</gallery>", "<math>", "</math>", "<pre>", "</pre>", "{{#if:", "<dl>", "<dt>", "<dd>", "<code>", "<sup>", "</sup>", "<sub>", "<caption>", "<imagemap>", "</imagemap>", "<timeline>", "</timeline>", "<source lang=x>", "</source>", "<poem>", "</poem>", "<pages from=1 to=2/>", "<inputbox>", "</inputbox>", "<rot13>", "</rot13>", "\t", "\r", "\x00", "\ud800", "\U0001F600", "‎", "http://a.b/c", "mailto:a@b.c", "[[Category:X]]", "[[de:X]]", "[[:en:X]]", "[[Image:x.jpg|thumb|left|", "px", "100px|", "{{T}}", "{{T|a=b}}", "<references/>", "<font>", "<big>", "<small>", "<s>", "<u>", "<tt>", "<hr>", "<index>", "style=\"overflow:auto;height:200px\" ", "class=\"noprint\" ", "id=region_list ", "<div id=region_list>", "<div style=\"overflow:auto;height:200px\">", "<div class=\"noprint\">", "<div style=\"position:absolute\">", "rowspan=2 ", "colspan=3 |", ""]
db = DictDB({"T": "x{{{1|d}}}y [[A]]\n* l", "Loop":"{{Loop}}"})
rng = random.Random(int(sys.argv[1]))
buckets = collections.Counter(); examples={}
t0=time.time(); n=0
stage_counts=collections.Counter()
while time.time()-t0 < float(sys.argv[2]):
    k = rng.randint(1, 25)
    s = "".join(rng.choice(lex) for _ in range(k))
    n+=1
    try:
        t = parse_string(title='T', raw=s, wikidb=db if rng.random()<0.5 else None, lang='en')
    except Exception as e:
        tb = traceback.extract_tb(e.__traceback__)
        fr = [f for f in tb if '/repo/' in f.filename][-1]
        key=('parse', type(e).__name__, fr.filename.split('/')[-1], fr.name, fr.lineno)
        buckets[key]+=1
        if key not in examples or len(s)<len(examples[key]): examples[key]=s
        continue
    try:
        advtree.build_advanced_tree(t)
    except Exception as e:
        tb = traceback.extract_tb(e.__traceback__)
        fr = [f for f in tb if '/repo/' in f.filename][-1]
        key=('adv', type(e).__name__, fr.filename.split('/')[-1], fr.name, fr.lineno)
        buckets[key]+=1
        if key not in examples or len(s)<len(examples[key]): examples[key]=s
        continue
    tc = TreeCleaner(t)
    for name in tc.cleaner_methods:
        try:
            getattr(tc, name)(t)
        except Exception as e:
            tb = traceback.extract_tb(e.__traceback__)
            fr = [f for f in tb if '/repo/' in f.filename][-1]
            key=('clean:'+name, type(e).__name__, fr.filename.split('/')[-1], fr.name, fr.lineno)
            buckets[key]+=1
            if key not in examples or len(s)<len(examples[key]): examples[key]=s
print(n, "cases")
for k,v in buckets.most_common():
    print(v, k, repr(examples[k]))
