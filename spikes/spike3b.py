import sys, time, logging, random, traceback, collections, signal, resource
logging.disable(logging.CRITICAL)
from mwlib.parser.expander import Expander, DictDB
from mwlib.core.nshandling import NsHandler
from mwlib.parser.templ import magics, magic_nodes
class DB(DictDB):
    def __init__(s, d):
        DictDB.__init__(s, d); s.nshandler = NsHandler(s.siteinfo)
    def get_url(s,*a,**k): return None
    def normalize_and_get_image_path(s, n): return None
    def normalize_and_get_page(s, title, defaultns=0):
        fq = s.nshandler.get_fqname(title, defaultns)
        key = fq.lower().replace(" ","_")
        for k in (key, key.split(":",1)[-1]):
            if k in s.data_dict:
                from mwlib.parser.templ.misc import Page
                return Page(s.data_dict[k])
        return None
names = sorted(n for n in dir(magics.MagicResolver) if not n.startswith('_') and (n.upper()==n)) + sorted(magic_nodes.registry)
SKIP = set("CONTENTLANGUAGE CURRENTHOUR CURRENTMONTHNAMEGEN CURRENTVERSION DEFAULTSORT DIRECTIONMARK DISPLAYTITLE LANGUAGE LOCALHOUR LOCALMONTHNAMEGEN NEWSECTIONLINK NUMBEROFADMINS NUMBEROFARTICLES NUMBEROFEDITS NUMBEROFFILES NUMBEROFPAGES NUMBEROFUSERS PAGESINNAMESPACE REVISIONDAY REVISIONDAY2 REVISIONID REVISIONMONTH REVISIONTIMESTAMP REVISIONYEAR SCRIPTPATH PADLEFT PADRIGHT".split())
names = [n for n in names if n not in SKIP]
lex = ["{{","}}","{{{","}}}","|","=",":","#","[[","]]","\n"," ","a","B","1","2","-3","1.5","x=y","{{T1","{{T2","{{T3","{{:T1","{{{1","{{{1|","{{{a}}}","<noinclude>","</noinclude>","<includeonly>","</includeonly>","<onlyinclude>","</onlyinclude>","<nowiki>","</nowiki>","<!--","-->","{{#if:","{{#ifeq:","{{#switch:","{{#expr:","{{#ifexpr:","{{#time:","{{#tag:","{{#titleparts:","{{#rel2abs:","{{#iferror:","{{#ifexist:","{{subst:","{{safesubst:","{{formatnum:","{{lc:","{{ucfirst:","{{ns:","{{localurl:","{{fullurl:","{{urlencode:","{{anchorencode:","{{int:","{{msg:","{{raw:","#default","*","{|","/","../","Y-m-d","xr","+","^","mod","(",")","e","<ref>","</ref>","<math>","</math>","\x7f","\ud800",""] + ["{{%s:"%n for n in names] + ["{{%s}}"%n for n in names]
rng = random.Random(int(sys.argv[1])); buckets=collections.Counter(); ex={}
class TO(Exception): pass
def h(*a): raise TO()
signal.signal(signal.SIGVTALRM, h)
resource.setrlimit(resource.RLIMIT_AS, (4<<30, 4<<30))
t0=time.time(); n=0
def soup(k): return "".join(rng.choice(lex) for _ in range(rng.randint(1,k)))
while time.time()-t0 < float(sys.argv[2]):
    db = DB({"T1": soup(12), "T2": soup(12), "T3": "{{{1}}}{{{1}}}" if rng.random()<.3 else soup(8)})
    page = soup(20); n+=1
    signal.setitimer(signal.ITIMER_VIRTUAL, 5.0)
    try:
        r = Expander(page, pagename="Pg/Sub", wikidb=db).expandTemplates()
        assert isinstance(r,str)
        if len(r) > 65536+64*len(page): raise ValueError("huge output")
    except TO:
        key=("CPU",); buckets[key]+=1; ex.setdefault(key,(page,db.data_dict))
    except BaseException as e:
        tb = traceback.extract_tb(e.__traceback__)
        frs=[f for f in tb if '/repo/' in f.filename or '.pyx' in f.filename]
        fr = frs[-1] if frs else tb[-1]
        key=(type(e).__name__, fr.filename.split('/')[-1], fr.name, fr.lineno); buckets[key]+=1
        if key not in ex or len(page)<len(ex[key][0]): ex[key]=(page,db.data_dict)
    finally:
        signal.setitimer(signal.ITIMER_VIRTUAL, 0)
print(n,"cases")
for k,v in buckets.most_common(): print(v,k,repr(ex[k])[:300])
