import random, collections
from mwlib.core.nshandling import NsHandler
from mwlib.network.siteinfo import get_siteinfo
import copy
langs = "de en es fr it ja nl no pl pt simple sv".split()
rng = random.Random(5)
fails = collections.Counter(); ex={}
for lang in langs:
    si = get_siteinfo(lang)
    h = NsHandler(copy.deepcopy(si))
    names = []
    for ns in si['namespaces'].values():
        names.append((ns['id'], ns['*']))
        if ns.get('canonical'): names.append((ns['id'], ns['canonical']))
    for a in si.get('namespacealiases', []):
        names.append((a['id'], a['*']))
    print(lang, si['general'].get('case'), len(names))
    for _ in range(20000):
        nsid, nsname = rng.choice(names)
        rest = "".join(rng.choice(["a","B","é","ß","ǆ","i","İ"," ","_",":","/","x y","‎","‏","1","-",".","Talk","ö"]) for _ in range(rng.randint(1,5)))
        def vary(s):
            s = "".join(c.upper() if rng.random()<.3 else c.lower() if rng.random()<.3 else c for c in s)
            s = s.replace(" ", rng.choice([" ","_","  ","_ "]))
            return s
        defaultns = rng.choice([0,6,10,14])
        t1 = (":" if rng.random()<.2 else "") + (vary(nsname)+rng.choice([":"," :",": "]) if nsname or rng.random()<.5 else "") + rest
        try:
            r1 = h.splitname(t1, defaultns)
            r2 = h.splitname(r1[2], 0)
        except Exception as e:
            fails[(lang,'EXC',type(e).__name__)]+=1; ex.setdefault((lang,'EXC',type(e).__name__), t1); continue
        if r2[2] != r1[2] or r2[0]!=r1[0]:
            k=('nonidem', r1[2]==r1[2].strip(), '  ' in r1[2]); fails[k]+=1
            if k not in ex or len(t1)<len(ex[k][0]): ex[k]=(t1, defaultns, r1, r2, lang)
for k,v in fails.items(): print(v,k,ex[k])
