#include "/repo/src/mwlib/parser/token/_uscan.cc"
#include <stdint.h>
#include <stdlib.h>
#include <stdio.h>
static const Py_UCS4 LEX[][12] = {
 {'[','[',0},{']',']',0},{'{','|',0},{'|','}',0},{'|','-',0},{'|',0},{'!',0},{'\n',0},{' ',0},{'=','=',0},{'\'','\'',0},{'<','b','>',0},{'&','a',';',0},{'*',0},{':',0},{'h','t','t','p',':','/','/','x',0},{0xEBAD,0},{'|','+',0},{'!','!',0},{'|','|',0},{'-','-','-','-',0},{'a',0},{'<','!','-','-',0},{'-','-','>',0},{0x7f,0},{0x1F600,0}
};
extern "C" int LLVMFuzzerTestOneInput(const uint8_t *data, size_t size) {
  std::vector<Py_UCS4> buf;
  size_t nlex = sizeof(LEX)/sizeof(LEX[0]);
  for (size_t i=0;i<size;i++) {
    uint8_t b = data[i];
    if (b < 200) { const Py_UCS4 *l = LEX[b % nlex]; while (*l) buf.push_back(*l++); }
    else if (i+1<size) { buf.push_back(((b-200)<<8 | data[i+1]) + 1); i++; }
  }
  size_t n = buf.size();
  for (int i=0;i<32;i++) buf.push_back(0);
  // exact-size heap copy so ASan sees overreads
  Py_UCS4 *p = (Py_UCS4*)malloc(buf.size()*sizeof(Py_UCS4));
  memcpy(p, buf.data(), buf.size()*sizeof(Py_UCS4));
  Scanner sc(p, p+n+32);
  while (sc.scan()) {}
  // oracle: tiling
  size_t pos = 0;
  for (size_t i=0;i<sc.tokens.size();i++) {
    Token &t = sc.tokens[i];
    while (pos < n && p[pos]==0xEBAD) pos++;
    if (t.len <= 0 || (size_t)t.start != pos) { fprintf(stderr,"TILING tok %zu start %d len %d pos %zu\n", i, t.start, t.len, pos); abort(); }
    pos += t.len;
  }
  while (pos < n && p[pos]==0xEBAD) pos++;
  size_t end = 0; while (end < n && p[end]!=0) end++;
  // tokens may end at first NUL
  if (pos != end) { 
     // skip trailing EBAD before NUL
     fprintf(stderr,"END pos %zu end %zu n %zu\n", pos, end, n); abort(); }
  free(p);
  return 0;
}
