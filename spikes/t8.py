import os, sys, time, json, logging, shutil, subprocess
from mwlib.network import fetch
from mwlib.network.siteinfo import get_siteinfo
from mwlib.core import metabook, wiki
from mwlib.apps.buildzip import zip_dir
from mwlib.utils.status import Status
from PIL import Image
shutil.rmtree('nw8', ignore_errors=True)
fs = fetch.FsOutput('nw8')
si = get_siteinfo('en'); fs.write_siteinfo(si)
mb = metabook.Collection(title="My Book")
mb.items.append(metabook.Chapter(title="Chap One"))
mb.append_article("Art0"); mb.append_article("Art1")
fs.dump_json(metabook=mb)
fs.nfo = {"format":"nuwiki","base_url":"http://example.org/w/","script_extension":".php"}
txt0 = "intro wq00001x\n\n== Head wq00002x ==\nbody wq00003x [[File:Img1.png|thumb|cap wq00004x]] [[File:Img1.png|30px|alt wq00005x]]\n<gallery>\nFile:Img1.png|gal wq00006x\n</gallery>\n{| class=\"wikitable\"\n|-\n| [[File:Img1.png|thumb|cell wq00007x]] || wq00008x\n|-\n| wq00009x || wq00010x\n|}\n{{T|wq00011x}}\n"
fs.write_pages({"pages": {"1": {"title": "Art0", "ns":0, "revisions":[{"revid": 100, "*": txt0}]}}})
fs.write_pages({"pages": {"2": {"title": "Art1", "ns":0, "revisions":[{"revid": 101, "*": "second wq00012x\n* item wq00013x\n"}]}}})
fs.write_pages({"pages": {"99": {"title": "Template:T", "ns":10, "revisions":[{"revid": 999, "*": "tmpl wq00014x {{{1}}}"}]}}})
fs.write_pages({"pages": {"98": {"title": "File:Img1.png", "ns":6, "revisions":[{"*": "desc {{PD}} [[User:Painter]]"}]}}})
p = fs.get_imagepath("File:Img1.png"); Image.new("RGB",(120,80),(200,30,30)).save(p, "PNG")
fs.set_db_key("imageinfo", "File:Img1.png", {"url":"http://example.org/images/Img1.png","descriptionurl":"http://example.org/wiki/File:Img1.png","width":120,"height":80,"size":300})
fs.set_db_key("authors", "Art0", ["Alice","ANONIPEDITS:2"])
fs.write_redirects({}); fs.write_licenses([]); fs.write_authors(); fs.write_html(); fs.imageinfo.close(); fs.close()
z = zip_dir('nw8', 'nw8.zip')
logging.disable(logging.CRITICAL)
for name in sys.argv[1:]:
    env = wiki.make_wiki(z)
    t=time.time()
    try:
        if name=="rl":
            from mwlib.writers.rl.writer import writer
            logging.disable(logging.CRITICAL)
            st=Status(None); st.stdout=None
            writer(env, output='out8.pdf', status_callback=st)
            from pypdf import PdfReader
            txt = "".join("".join(p.extract_text().split()) for p in PdfReader('out8.pdf').pages)
            print("rl OK", round(time.time()-t,2), [w for w in ["wq%05dx"%i for i in range(1,15)] if w not in txt])
        else:
            from mwlib.writers.odf.writer import writer
            st=Status(None); st.stdout=None
            writer(env, output='out8.odt', status_callback=st)
            r = subprocess.run(["/venv/bin/python","/venv/bin/odflint","out8.odt"], capture_output=True, text=True)
            import zipfile
            c = zipfile.ZipFile('out8.odt').read('content.xml').decode()
            print("odf OK", round(time.time()-t,2), "lint:", repr(r.stdout[:300]), repr(r.stderr[:300]), [w for w in ["wq%05dx"%i for i in range(1,15)] if w not in c])
    except Exception as e:
        import traceback; traceback.print_exc(); print(name, "FAIL", repr(e))
    finally:
        env.wiki.clear()
