import logging, time, signal
logging.disable(logging.CRITICAL)
from mwlib.parser.expander import Expander, DictDB
db=DictDB({})
class TO(Exception): pass
def h(*a): raise TO()
signal.signal(signal.SIGALRM, h)
for t in ["{{#expr:2^99999999}}","{{#expr:1e999999999}}","{{#expr:2e400}}","{{#expr:9e9e9}}","{{#expr:10 e 99999999}}", "{{#expr:1e-999999999}}","{{#expr:99999999 mod 0}}","{{#expr:1/0}}", "{{#expr:trunc 1e400}}","{{#expr: 5 round 99999999999}}","{{#expr: 5.5 round -99999999999}}", "{{#time:Y|99999999999}}", "{{#time:xrY|9999}}", "{{padleft:x|500|ab}}", "{{#titleparts:a/b|99999999999|-99999999}}", "{{formatnum:99999999999999999999999999}}", "{{#ifexpr:1e999999999|a|b}}", "{{ns:99999999999}}", "{{urlencode:}}", "{{fullurl:}}", "{{#tag:}}", "{{#rel2abs:}}", "{{anchorencode:}}","{{#switch:}}", "{{#if:}}", "{{#ifeq:}}", "{{#time:}}", "{{lc:}}", "{{#iferror:}}", "{{#language:}}", "{{localurl:}}","{{localurle:}}", "{{subst:}}", "{{safesubst:}}", "{{formatnum:}}", "{{#expr:}}","{{#ifexpr:}}","{{#ifexist:}}","{{#titleparts:}}","{{padleft:}}","{{ucfirst:}}","{{ns:}}","{{pagename:}}","{{talkpagename:}}","{{namespace:}}"]:
    signal.setitimer(signal.ITIMER_REAL, 3.0)
    t0=time.time()
    try:
        r = Expander(t, pagename="P", wikidb=db).expandTemplates()
        print(repr(t), '->', repr(r[:80]), len(r), round(time.time()-t0,2))
    except TO:
        print(repr(t), 'TIMEOUT')
    except Exception as e:
        print(repr(t), 'EXC', type(e).__name__, e)
    finally:
        signal.setitimer(signal.ITIMER_REAL, 0)
