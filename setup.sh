#!/bin/bash
# Offline setup: third-party wheels beside the repo's packages + warm the extension cache.
set -e
cd "$(dirname "$0")"
export PIP_NO_INDEX=1
/venv/bin/python -c 'import hypothesis' 2>/dev/null || \
  /venv/bin/pip install -q --no-index --find-links /opt/veriftools/wheels hypothesis
if ! PYTHONPATH=.deps /venv/bin/python -c 'import atheris' 2>/dev/null; then
  /venv/bin/pip install -q --no-index --find-links /opt/veriftools/wheels --target .deps atheris || \
    echo "setup: atheris not installable (thorough fuzz tiers will report this)" >&2
fi
PYTHONPATH=lib /venv/bin/python -m vf.build >/dev/null
echo "setup ok"
