#!/usr/bin/env python3
"""Regenerates /verif/MANIFEST.json from the table below and validates it.
Run with python3-vt (has jsonschema):  python3-vt tools/mkmanifest.py"""
import json
import os
import sys

VERIF = os.path.dirname(os.path.dirname(os.path.abspath(__file__)))

# id -> (category, technique, level text, level note, design ref)
CHECKS = {
    "C01": (
        "exploration",
        "Hypothesis token soup / nesting ladders / template universes x 12 languages through parse_string; totality oracle + deterministic "
        "call-count budget + doubling growth law (systematic for every lexeme); failures bucketed by innermost repo frame and ddmin-shrunk + (thorough tier) an atheris/libFuzzer coverage-guided campaign that drives the same Hypothesis test through fuzz_one_input with the mwlib sources instrumented",
        "Tens of thousands of generated inputs per run over the full wikitext alphabet (every scanner token, every allowed and extension tag, "
        "ill-formed/out-of-range entities, control and non-BMP characters, nesting to depth 40, recursive templates); 'never hangs / no "
        "blow-up' is decided by counting Python call events against a polynomial budget and by a doubling law on repeated units, not by "
        "wall-clock time. Sampled; absence of failures is evidence over the generated space only.",
        "Work inside Cython/C code is not counted (60 s CPU alarm as backstop); nesting deeper than 40 is excluded by the property.",
        "DESIGN.md section 2 C01",
    ),
    "C02": (
        "exploration",
        "recursive document grammar (Hypothesis st.randoms) emitting wikitext together with the expected (word, ancestor-chain) sequence, "
        "12 languages; oracle: sequence read off the advanced tree equals the expected one in both directions + (thorough tier) an atheris/libFuzzer coverage-guided campaign that drives the same Hypothesis test through fuzz_one_input with the mwlib sources instrumented",
        "Tens of thousands of generated well-formed documents per run; every visible word is a unique token, so loss, duplication, "
        "re-ordering and wrong attachment are all visible; the expectation comes from the generator's AST, not from the parser.",
        "Ancestors outside the projection are ignored; style-class order is compared as a multiset.",
        "DESIGN.md section 2 C02",
    ),
    "C03": (
        "exploration",
        "exhaustive/sampled call matrix (every magic word, parser function and site alias x 0-3 arguments x 20 shapes) + Hypothesis "
        "template universes with recursion and argument-multiplying templates; oracle: returns str, raises nothing, CPU/output/memory budgets",
        "The call matrix is a finite space enumerated completely for <= 2 arguments (sampled for 3 in quick, complete for built-ins in "
        "thorough); universes are sampled. Failures are bucketed by innermost repo frame so that one root cause is one bucket.",
        "Per-call 5 s CPU alarm (1000x typical) plus the parent watchdog for stalls inside one C call; 6 GiB address-space cap per worker. "
        "One open known finding (k^d expansion of nested argument-multiplying templates) is excluded by construction and replayed as witness.",
        "DESIGN.md section 2 C03",
    ),
    "C04": (
        "exploration",
        "Hypothesis-generated template programs and #expr trees (ASTs) serialised to wikitext; differential against an independent reference "
        "interpreter / evaluator over the AST; metamorphic minimal- vs full-parenthesis spellings; identity on syntax-free text + (thorough tier) an atheris/libFuzzer coverage-guided campaign that drives the same Hypothesis test through fuzz_one_input with the mwlib sources instrumented",
        "The expected expansion is computed from the AST by a reference interpreter that never sees the wikitext and imports nothing from "
        "mwlib; thousands of programs and expressions per run are compared string-for-string (programs) or numerically with a stated "
        "tolerance (#expr).",
        "The reference encodes MediaWiki's documented semantics as the property states them; leaves are restricted so that disputable "
        "corners (implicit newlines, duplicate bindings, float formatting, e-notation numerics) are not generated.",
        "DESIGN.md section 2 C04",
    ),
    "C05": (
        "exploration",
        "same generators as C01 (+ cleaner-trigger lexemes); independent iterative tree validator after build_advanced_tree and after each of "
        "the 58 cleaning passes applied one by one; writers' container contract after the full sequence",
        "An identity-based validator written without reference to advtree's own validators decides tree well-formedness after every single "
        "pass on thousands of generated trees per run; the failing pass is part of the bucket.",
        "A pass that raises is C06's finding; like TreeCleaner.clean(), which swallows the error, the check goes on with the next pass and judges the tree the writer would get. Parse failures are C01's.",
        "DESIGN.md section 2 C05",
    ),
    "C06": (
        "exploration",
        "same driver as C05: every pass must return within the call budget 1e6+2e3*nodes^2, fixed-point passes must be at their fixed point, "
        "clean_all() must record no swallowed ERROR report",
        "Each of the 58 pass applications is run on thousands of generated trees per run with exceptions bucketed by (pass, innermost frame); "
        "evidence lists which passes actually changed a tree so that unreached passes are visible.",
        "Passes that only set attributes are not visible in the 'changed' statistics (structural hash); rtl-only passes are not switched on.",
        "DESIGN.md section 2 C06",
    ),
    "C07": (
        "exploration",
        "same grammar restricted to ordinary content; metamorphic oracle: (word, section, item nesting, reference) placement before "
        "clean_all() == after; 2x2+ tables stay tables; failures minimised by line-based ddmin + (thorough tier) an atheris/libFuzzer coverage-guided campaign that drives the same Hypothesis test through fuzz_one_input with the mwlib sources instrumented",
        "The placement sequence is read off the same tree before and after the full cleaning sequence on tens of thousands of generated "
        "documents per run.",
        "At most two nested tables per table (the cleaner's documented layout-table heuristic is outside ordinary content); restructuring "
        "invisible to the projection is allowed.",
        "DESIGN.md section 2 C07",
    ),
    "C08": (
        "exploration",
        "Hypothesis collections (1-4 documents of C02's grammar, chapters, templates and images stored in the archive) written with the real "
        "FsOutput/zip_dir, opened with make_wiki and rendered through the rl and odf writer entry points and their single-article test "
        "modes; oracle: writer returns, PDF text contains every expected word, ODF package well-formed and lint-clean",
        "Hundreds of generated collections per run go through the whole pipeline (archive, expansion, parsing, cleaning, layout); the "
        "expected word set comes from the generator (article words, template words, thumbnail / gallery / table-cell captions).",
        "Word presence in pypdf's text extraction (whitespace and hyphens removed), not layout or order; pdftk/pdfsam are absent, so the "
        "TOC merge step runs only as far as mwlib tolerates a missing tool.",
        "DESIGN.md section 2 C08",
    ),
    "C09": (
        "exploration",
        "Hypothesis bodies (full-alphabet lexeme soup) x 6 opaque tags x 10 embedding contexts x with/without wiki database; oracle: node "
        "text == body modulo a strict reference entity grammar, node-class multiset equal to the plain-body parse, uniq round trip + (thorough tier) an atheris/libFuzzer coverage-guided campaign that drives the same Hypothesis test through fuzz_one_input with the mwlib sources instrumented",
        "Tens of thousands of generated (tag, body, context) triples per run; the body alphabet contains every construct that would build a "
        "node if interpreted (markup, templates, parameters, HTML/include tags, comments, entities).",
        "A <ref> context is only exercised on the expander path; one leading newline after <pre> may be dropped; comments are removed by the "
        "uniquifier by design and excluded from the round-trip comparison, as are nowiki regions (restored as their inner text).",
        "DESIGN.md section 2 C09",
    ),
    "C10": (
        "exploration",
        "exhaustive itertools.product over scanner lexeme sequences (<=3 full table, 4 core table; thorough <=4 full) + "
        "Hypothesis long Unicode texts + native libFuzzer/ASan/UBSan target including the tree's _uscan.cc, all against a tiling oracle",
        "Every concatenation of up to 3 (thorough 4) scanner-relevant lexemes is scanned and checked against an independent "
        "statement of tiling (ordered, non-empty, known type, gaps only U+EBAD, ends at end/first NUL); that sub-space is "
        "exhaustive, longer inputs are sampled by Hypothesis and by coverage-guided fuzzing of the C++ scanner under sanitizers.",
        "Treats the tracked re2c output _uscan.cc as the scanner source (re2c is not installed, _uscan.re cannot be regenerated). "
        "The native target appends the same 32 NUL sentinels as utoken.scan.",
        "DESIGN.md section 2 C10",
    ),
    "C11": (
        "exploration",
        "Hypothesis synthetic wikis x metabooks x API limits x latency scripts against the real fetcher (make_nuwiki + a subclass of the real "
        "MwApi with only the HTTP layer replaced); oracle: closure computed from the wiki model, archive read back with nuwiki.Adapt",
        "Thousands of generated wikis per run; URL building, batching, query-continue handling, result merging, greenlet fan-out and the "
        "archive writer are the real code; expected texts, image closure, description pages and contributor lists come from the model.",
        "Greenlet interleavings are sampled (latency script), not enumerated; redirects one level deep, no cycles; download client stubbed.",
        "DESIGN.md section 2 C11",
    ),
    "C12": (
        "exploration",
        "Hypothesis-generated titles x spelling operators x 24 site configurations against algebraic laws L1-L4 "
        "(canonical form, idempotence, spelling invariance, namespace id) + (thorough tier) an atheris/libFuzzer coverage-guided campaign that drives the same Hypothesis test through fuzz_one_input with the mwlib sources instrumented",
        "Generated-input search (tens of thousands of titles per run, 1.6 M thorough) over namespace entries of every "
        "bundled siteinfo, both case modes, all default namespaces; oracle is an independent statement of the canonical "
        "form computed from the siteinfo, plus idempotence and agreement of two independently drawn spellings. "
        "Sampling, not proof: absence of violations is evidence over the generated space only.",
        "Trusts the bundled siteinfo JSON as the definition of each site's namespaces; first-letter capitalisation "
        "accepted as str.upper() or str.title() of the first code point; bidi marks only at title/remainder edges.",
        "DESIGN.md section 2 C12",
    ),
    "C13": (
        "exploration",
        "Hypothesis-generated metabook JSON trees x spellings x request pairs; round-trip, fixed-point, no-sharing and "
        "collection-id (in)equality oracles (metamorphic: equal-by-value spellings vs single-field mutations) + (thorough tier) an atheris/libFuzzer coverage-guided campaign that drives the same Hypothesis test through fuzz_one_input with the mwlib sources instrumented",
        "Thousands of generated metabooks per run are loaded, dumped, reloaded and compared on plain trees; ids from nserve and "
        "serve are compared across re-spellings (must be equal) and single-field mutations (must differ). Sampled, not exhaustive.",
        "null and absent attributes are the same metabook; titles inside a metabook are distinct; stdlib json encoder produces the spellings.",
        "DESIGN.md section 2 C13",
    ),
    "C15": (
        "exploration",
        "exhaustive itertools.product over single-member archives (component sequences to depth 4/5 x separators x absolute/relative x "
        "file/dir entry) + Hypothesis multi-member archives x destination spellings x entry point (nuwiki.extractall, or wiki.make_wiki on a "
        "nuwiki / multi-nuwiki zip) x optional earlier extraction into a sibling directory in the same process; oracle = file-system snapshot "
        "diff of a sandbox root + independent lexical escape predicate",
        "All single-member archives to depth 4 (thorough 5) over the stated component alphabet are extracted for real into a scratch "
        "sandbox and the whole sandbox is diffed (exhaustive for that sub-space); multi-member archives and destination spellings are sampled.",
        "POSIX path semantics ('\\' is not a separator on this platform); no symlink members; absolute names point into the scratch root only.",
        "DESIGN.md section 2 C15",
    ),
    "C14": (
        "exploration",
        "Hypothesis-generated page/revision/redirect/image sets and write histories through the real FsOutput -> zip_dir -> "
        "wiki.make_wiki path; byte/text round-trip oracle under every drawn equivalent spelling; adversarial escape-twin titles for injectivity",
        "Each generated archive is really written, zipped, re-opened and read back by revision id, title, spelling, redirect and image "
        "spelling; expected values come from the generated model (newest revid per title), not from the reader. Sampled.",
        "Canonical titles are the fixed point of the site's own normalisation (C12 covers that); separator-containing texts excluded per the "
        "quantifier; one open known finding (text starting with the separator tail) is excluded by construction and replayed as witness.",
        "DESIGN.md section 2 C14",
    ),
    "C16": (
        "exploration",
        "owned-schedule engine (real workq + QPlugin, fake clock, drawn random.choice, harness-driven greenlet switches): exhaustive "
        "histories <=5 ops over a reduced alphabet + Hypothesis operation lists over the full alphabet, against an observational "
        "conservation oracle (held by one / delivered to a blocked or draining puller) after every step",
        "Every interleaving of the stated operations is a history the harness executes deterministically; all histories up to length 5 "
        "(thorough 6) over a 12-operation alphabet are enumerated (exhaustive sub-space), longer ones over the full alphabet are "
        "sampled and shrunk. Finds lost/duplicated jobs as concrete replayable operation lists.",
        "Relies on gevent's cooperative scheduling (atomic between yields) and on one request at a time per connection; socket/JSON "
        "layer of rpcserver is not in the loop (handle_client's unwinding order is reproduced by the engine's Conn).",
        "DESIGN.md section 2 C16-C18",
    ),
    "C17": (
        "exploration",
        "same engine with wait/re-add/late-report/dropdead operations; model-based oracle (first outcome wins, eligibility, "
        "priority/age order when observable, waiter release, idempotent add, counters) checked after every step",
        "Exhaustive histories <=4 (thorough 5) over a 15-operation alphabet plus sampled longer histories; the reference model is the "
        "statement itself (first of finish/kill/timeout wins, (priority, age) order) and never predicts which blocked worker is served.",
        "Ordering is asserted only for non-blocking pulls while no puller is blocked (queue content then observable without prediction).",
        "DESIGN.md section 2 C16-C18",
    ),
    "C18": (
        "exploration",
        "same engine; save/restore (pickle of qserve.db) inserted at every position of every generated history, C16/C17 oracles continue "
        "on the restored queue against the model (held -> queued, outcomes kept, deadlines kept, ids unused)",
        "Crash/restart point enumeration over generated histories: every cut of every exhaustive history <=4 (thorough 5) operations and of "
        "sampled longer histories.",
        "Save/restore happens between scheduler quanta (as savedb in the server loop's finally); counters are not part of the saved state.",
        "DESIGN.md section 2 C16-C18",
    ),
    "C19": (
        "exploration",
        "Hypothesis histories of a collection's fetch/render jobs on the real queue (owned-schedule engine), do_render_status called "
        "after every step through a JSON-round-trip proxy; model-derived state mapping + content-disposition grammar/round-trip oracle",
        "Thousands of generated job histories (all job states incl. killed, timed out, dropped after TTL, other writer's job, re-added) with "
        "the status command evaluated after every operation for both writers; expected state comes from the model of the queried "
        "writer's render job, not from the queue snapshot.",
        "Application.qserve is bound to an in-process proxy over the real workq (json.dumps/loads on arguments and results as the RPC "
        "wire does); the HTTP/bottle layer is not in the loop.",
        "DESIGN.md section 2 C19",
    ),
    "C20": (
        "fault_enumeration",
        "strace-injected SIGKILL and ENOSPC/EIO (once, and persistently for the write-like calls) at every (syscall name, K) inside each of 6 "
        "producers x 2 pre-states x 2 layouts (output next to TMPDIR / on another file system), calibrated per run by marker stat() calls; "
        "oracle: the final path is absent or parses completely, success is reported only with a complete file",
        "The file system only changes at system calls, so killing the producer on entry to its K-th openat/write/close/rename/unlink/mkdir/... "
        "enumerates its crash states for the given input; the two render producers are strided in the quick tier and complete in the "
        "thorough tier. Each point is one generated input (producer, pre-state, fault, syscall, K) with its own replay file.",
        "kill -9 model (no power-loss/fsync reasoning, no partially executed large write); needs ptrace (strace) - the check exits 2, not 1, "
        "where that is not permitted; archive content is one fixed small collection.",
        "DESIGN.md section 2 C20",
    ),
}

NOT_YET = {}
ALL = ["C%02d" % i for i in range(1, 21)]


def main():
    checks = []
    for pid in ALL:
        if pid not in CHECKS:
            continue
        cat, tech, text, note, ref = CHECKS[pid]
        checks.append(dict(
            property_id=pid,
            quick_cmd="./check %s --tier quick" % pid,
            thorough_cmd="./check %s --tier thorough" % pid,
            evidence_file="evidence/%s.json" % pid,
            replay_cmd_template="./check %s --replay {path}" % pid,
            engine="vf",
            level_claimed=dict(category=cat, text=text, design_ref=ref),
            level_note=note,
            technique=tech,
        ))
    na = [dict(property_id=pid, reason=NOT_YET.get(pid, "check not built yet in this round; planned in DESIGN.md section 2, claimed once ./check %s exists" % pid))
          for pid in ALL if pid not in CHECKS]
    m = dict(
        version=1,
        setup_cmd="./setup.sh",
        hooks=dict(
            guard="MWLIB_VERIF",
            enable="no source hooks are needed: checks import /repo/src directly and rebuild the five compiled modules "
                   "from the working tree into /verif/.build (lib/vf/build.py); time, randomness, HTTP and file-system "
                   "faults are substituted from the harness process",
            baseline_off_cmd="cd /repo && PATH=/venv/bin:$PATH /venv/bin/python -m pytest -ra -q -p no:cacheprovider --timeout=900 --continue-on-collection-errors",
            source_commits=[],
            add_only=True,
        ),
        engines=[dict(name="vf", path="lib/vf", serves_properties=sorted(CHECKS),
                      kind_free_text="property-based testing / fuzzing runner: 16 sharded worker processes running Hypothesis "
                                     "strategies, rule-based state machines, exhaustive itertools enumerations and injected faults "
                                     "against explicit oracles; evidence and replay files written by the runner")],
        checks=checks,
        not_applicable=na,
        notes="All checks honour VERIF_SEED and VERIF_TIER; exit 0 held / 1 VIOLATION / 2 harness error. "
              "known_findings.json lists fixed and open findings; see DESIGN.md.",
    )
    out = os.path.join(VERIF, "MANIFEST.json")
    with open(out + ".tmp", "w") as f:
        json.dump(m, f, indent=1)
    try:
        import jsonschema

        jsonschema.validate(m, json.load(open("/root/.vp/MANIFEST.schema.json")))
    except ImportError:
        print("jsonschema not available; not validated", file=sys.stderr)
    os.replace(out + ".tmp", out)
    print("MANIFEST.json written: %d checks, %d not_applicable" % (len(checks), len(na)))


if __name__ == "__main__":
    main()
