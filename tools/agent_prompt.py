#!/usr/bin/env python3
"""prints the prompt for a fresh sub-agent: tools/agent_prompt.py <ID> <worktree>"""
import json, sys
pid, wt = sys.argv[1], sys.argv[2]
for l in open("/verif/properties.jsonl"):
    p = json.loads(l)
    if p["id"] == pid:
        break
print(f"""You are helping to evaluate a verification effort for the open-source project pediapress/mwlib (a Python MediaWiki wikitext parser, template expander, parse-tree cleaner, PDF/ODF writers and a small job-queue server `qs`). You work ONLY inside your own scratch git worktree of the repository at {wt} (never touch /repo or /verif, and do not read /verif).

Helper scripts in the worktree: `{wt}/run_tests.sh` runs the repository's full test suite against the worktree (about 20 s; all tests pass on the unmodified tree); `{wt}/py script.py` runs Python with the worktree's sources first on the import path; `{wt}/rebuild_ext.sh` rebuilds the compiled modules in place (only needed if you edit a .pyx file or _uscan.cc). Python is /venv/bin/python (3.12) with hypothesis, gevent, pypdf, reportlab installed. There is no network.

This is the semantic property under study (JSON record):

{json.dumps(p, indent=1, ensure_ascii=False)}

Your task: produce THREE independent, realistic changes (bugs) to the mwlib/qs sources, each of which BREAKS this property while the code still compiles/imports and the existing test suite still passes completely (`./run_tests.sh` shows the same pass count as before, no new failures). Think of the kind of regression a maintainer could plausibly introduce in a refactoring, optimisation or "small cleanup" - not sabotage that ordinary use would expose at once. Prefer changes that need something specific to manifest: a particular interleaving, a crash or fault at a particular point, a multi-step sequence of operations, an unusual but in-domain input, or two cooperating sites that each look fine alone. The three changes should use different mechanisms and different code sites (spread them over the files and mechanisms the property record names, including the less obvious ones). Stay inside the property's quantifier (inputs it excludes do not count), and make sure the breakage is a real violation of the statement, not merely a behaviour change the statement allows.

For EACH change deliver, under {wt}/out/1/, {wt}/out/2/ and {wt}/out/3/:
  - patch.diff : `git diff` of the change against the worktree's HEAD (sources only; must apply with `git apply` to a clean checkout)
  - demo.py    : a small self-contained program (run as `{wt}/py demo.py`) that exits 0 / prints PASS on the unmodified tree and exits non-zero / prints FAIL with the change applied. It must show the property being violated (not just that code differs).
  - meta.json  : {{"property": "{pid}", "summary": "...", "needs_to_manifest": "what specific input/sequence/interleaving/fault is needed", "files_touched": [...], "tests_run": "output tail of ./run_tests.sh with the change applied", "demo_without_change": "...", "demo_with_change": "..."}}
Work on one change at a time: apply it, run the test suite, run the demo, save `git diff > out/N/patch.diff`, then `git checkout -- src` to revert before the next one (keep out/ untracked). Verify each demo on both the unmodified and the modified tree. Leave the worktree with the sources reverted (clean `git status` apart from out/ and the helper files). In your final message, summarise the changes in a few lines each.""")
