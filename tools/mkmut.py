#!/usr/bin/env python3
"""tools/mkmut.py <ID/name> <repo-relative file> <old> <new> [count]  -> tools/mutants/<ID>/<name>.patch"""
import difflib, os, sys
name, rel, old, new = sys.argv[1:5]
src = open(os.path.join("/repo", rel)).read()
old = old.encode().decode("unicode_escape") if "\\n" in old else old
new = new.encode().decode("unicode_escape") if "\\n" in new else new
assert src.count(old) >= 1, "old text not found"
if len(sys.argv) > 5:
    n = int(sys.argv[5]); parts = src.split(old); mutated = old.join(parts[:n]) + new + old.join(parts[n:])
else:
    assert src.count(old) == 1, "old text occurs %d times" % src.count(old)
    mutated = src.replace(old, new)
d = difflib.unified_diff(src.splitlines(True), mutated.splitlines(True), "a/" + rel, "b/" + rel)
out = os.path.join("/verif/tools/mutants", name + ".patch")
os.makedirs(os.path.dirname(out), exist_ok=True)
open(out, "w").write("".join(d))
print(out)
