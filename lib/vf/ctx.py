"""Worker-side context: counts what was generated, collects failures by bucket,
derives seeds, announces the running case to the parent watchdog."""
import hashlib
import json
import os
import sys
import time
import traceback

import hypothesis
from hypothesis import HealthCheck, Phase, settings

NSHARDS_DEFAULT = 16


def jdump(x):
    return json.dumps(x, sort_keys=True, ensure_ascii=True, default=repr)


def h64(s):
    if not isinstance(s, (bytes, bytearray)):
        s = s.encode("utf-8", "surrogatepass")
    return hashlib.sha1(s).hexdigest()[:16]


class HarnessError(Exception):
    """Something is wrong with the harness (generator floor, tool missing) -> exit 2."""


class Ctx:
    def __init__(self, prop, tier, seed, shard, nshards, workdir, known=None, announce_path=None):
        self.prop = prop
        self.tier = tier
        self.seed = int(seed)
        self.shard = shard
        self.nshards = nshards
        self.workdir = workdir
        self.known = known or []  # list of findings for this property
        self.evaluations = 0
        self.bulk_nontrivial = 0  # distinct-by-construction (enumerated spaces)
        self.nontrivial = set()
        self.labels = {}
        self.samples = {}  # label -> [sample]
        self.failures = {}  # bucket -> dict(case, detail, size, count)
        self.excluded = 0
        self.notes = {}
        self.exhaustive = []
        self.inconclusive = []
        self._afd = None
        if announce_path:
            self._afd = os.open(announce_path, os.O_WRONLY | os.O_CREAT | os.O_TRUNC, 0o644)
        self.t0 = time.time()

    # ---- tiers / seeds -------------------------------------------------------------
    @property
    def thorough(self):
        return self.tier == "thorough"

    def n(self, quick, thorough):
        """Per-shard share of a whole-run budget."""
        total = thorough if self.thorough else quick
        scale = float(os.environ.get("VERIF_SCALE", "1"))
        return max(1, int(total * scale) // self.nshards)

    def hseed(self, tag=""):
        d = hashlib.sha256(("%s|%s|%s|%s" % (self.seed, self.prop, self.shard, tag)).encode()).digest()
        return int.from_bytes(d[:8], "big")

    def settings(self, max_examples, shrink=False, stateful_step_count=None, **kw):
        phases = [Phase.generate, Phase.target]
        if shrink:
            phases.append(Phase.shrink)
        args = dict(
            max_examples=max_examples,
            database=None,
            deadline=None,
            derandomize=False,
            report_multiple_bugs=False,
            phases=phases,
            suppress_health_check=[HealthCheck.too_slow, HealthCheck.data_too_large,
                                   HealthCheck.large_base_example],
            print_blob=False,
        )
        if stateful_step_count is not None:
            args["stateful_step_count"] = stateful_step_count
        args.update(kw)
        return settings(**args)

    def run_given(self, test, tag=""):
        """Run a @given-decorated function (already carrying its settings) under the
        shard seed.  Collect-mode tests never raise; raise-mode tests call ctx.fail()
        before raising, Hypothesis replays the minimal example last, so the last
        recorded case per bucket is the shrunk one."""
        fz = os.environ.get("VERIF_FUZZ")
        if fz is not None:
            # coverage-guided child (see fuzz_campaign): only the selected @given test runs, driven by atheris
            ftag, runs = fz.rsplit("|", 1)
            if ftag == tag:
                self._atheris(test, int(runs))
            return
        seeded = hypothesis.seed(self.hseed(tag))(test)
        try:
            seeded()
        except HarnessError:
            raise
        except hypothesis.errors.FailedHealthCheck as e:
            raise HarnessError("health check: %s" % e)
        except hypothesis.errors.Unsatisfiable as e:
            raise HarnessError("unsatisfiable: %s" % e)
        except _Failure:
            pass
        except (KeyboardInterrupt, SystemExit):
            raise
        except BaseException:
            raise HarnessError("unexpected exception in test body:\n" + traceback.format_exc())

    # ---- coverage-guided campaigns (atheris on libFuzzer driving the same @given test) ---------------
    @property
    def fuzzing(self):
        return os.environ.get("VERIF_FUZZ") is not None

    def _atheris(self, test, runs):
        """never returns: libFuzzer exits the process; the result file is rewritten every 500 executions"""
        import atheris

        out = os.environ["VERIF_FUZZ_OUT"]
        fuzz_one = test.hypothesis.fuzz_one_input
        n = [0]

        def dump(status="ok", error=None):
            res = self.result()
            res["status"] = status
            if error:
                res["error"] = error
            res["atheris_executions"] = n[0]
            with open(out + ".tmp", "w") as f:
                json.dump(res, f, default=repr)
            os.replace(out + ".tmp", out)

        def one(data):
            n[0] += 1
            try:
                fuzz_one(data)
            except _Failure:
                pass
            except BaseException:
                dump("harness", "exception escaped the test body under atheris:\n" + traceback.format_exc())
                os._exit(0)
            if n[0] % 500 == 0 or n[0] >= runs - 1:
                dump()

        corpus = os.path.join(self.workdir, "ath-corpus-%02d" % self.shard)
        os.makedirs(corpus, exist_ok=True)
        dump()
        atheris.Setup([sys.argv[0], corpus, "-runs=%d" % runs, "-seed=%d" % (self.hseed("atheris") % (2 ** 31 - 2) + 1), "-max_len=8192", "-len_control=0",
                       "-timeout=300", "-rss_limit_mb=0", "-verbosity=0", "-print_final_stats=0", "-artifact_prefix=%s/" % corpus], one)
        atheris.Fuzz()
        os._exit(0)

    def fuzz_campaign(self, tag, runs):
        """Runs the @given test registered under `tag` for `runs` executions under atheris in a child process (python-level
        coverage of the mwlib sources guides the byte mutations that Hypothesis decodes into cases) and merges what it
        recorded.  No-op inside such a child."""
        if self.fuzzing:
            return
        if isinstance(runs, tuple):  # (whole-run budget quick, thorough); VERIF_ATHERIS_QUICK=<n> forces a quick-tier campaign
            total = runs[1] if self.thorough else int(os.environ.get("VERIF_ATHERIS_QUICK", runs[0]))
            if not total:
                return
            runs = max(200, int(total * float(os.environ.get("VERIF_SCALE", "1"))) // self.nshards)
        import subprocess

        out = os.path.join(self.workdir, "fuzz%02d-%s.json" % (self.shard, h64(tag)[:6]))
        env = dict(os.environ, VERIF_FUZZ="%s|%d" % (tag, runs), VERIF_FUZZ_OUT=out)
        cmd = [sys.executable, "-W", "ignore", "-m", "vf.worker", self.prop, self.tier, str(self.seed), str(self.shard), str(self.nshards), self.workdir]
        proc = subprocess.Popen(cmd, env=env, stdout=subprocess.DEVNULL, stderr=subprocess.PIPE)
        import threading

        errbuf = []
        th = threading.Thread(target=lambda: errbuf.append(proc.stderr.read()), daemon=True)
        th.start()
        while proc.poll() is None:
            self.heartbeat()
            time.sleep(2)
        th.join(5)
        try:
            with open(out) as f:
                res = json.load(f)
        except (OSError, ValueError):
            raise HarnessError("atheris child for %r left no result (rc=%r): %s" % (tag, proc.returncode, b"".join(errbuf)[-1500:].decode("utf-8", "replace")))
        if res.get("status") != "ok":
            raise HarnessError("atheris child for %r: %s" % (tag, res.get("error")))
        if proc.returncode not in (0, None) and not res["failures"]:
            # libFuzzer stopped by itself (timeout / crash of the interpreter) without a recorded failure
            raise HarnessError("atheris child for %r ended with rc=%r after %d executions: %s" % (
                tag, proc.returncode, res.get("atheris_executions", 0), b"".join(errbuf)[-1500:].decode("utf-8", "replace")))
        self.evaluations += res["evaluations"]
        self.nontrivial.update(res["nontrivial"])
        self.bulk_nontrivial += res.get("bulk_nontrivial", 0)
        # the campaign's labels are kept apart (prefix "atheris/"): the generator floors judge the Hypothesis-drawn cases only
        for l, c in res["labels"].items():
            self.labels["atheris/" + l] = self.labels.get("atheris/" + l, 0) + c
        self.labels["atheris-cases"] = self.labels.get("atheris-cases", 0) + res["evaluations"]
        key = "atheris-executions" + (":" + tag if tag else "")
        self.labels[key] = self.labels.get(key, 0) + res.get("atheris_executions", 0)
        for b, f in res["failures"].items():
            cur = self.failures.get(b)
            if cur is None or f["size"] < cur["size"]:
                self.failures[b] = dict(f, count=f["count"] + (cur["count"] if cur else 0))
            else:
                cur["count"] += f["count"]
        for l, ss in res["samples"].items():
            self.samples.setdefault("atheris:" + l, ss[:1])
        self.excluded += res.get("excluded", 0)

    # ---- counting ------------------------------------------------------------------
    def announce(self, case):
        if self._afd is not None:
            b = (case if isinstance(case, str) else jdump(case)).encode("utf-8", "replace")[:60000]
            os.ftruncate(self._afd, 0)
            os.pwrite(self._afd, b, 0)

    def heartbeat(self):
        """tell the parent watchdog that a long sub-step (a fuzzer campaign, a child process) is alive"""
        if self._afd is not None:
            self._beat = getattr(self, "_beat", 0) + 1
            os.pwrite(self._afd, b" " * (self._beat % 2) + b"{}", 0)
            os.ftruncate(self._afd, 2 + self._beat % 2)

    def record(self, key, labels=(), nontrivial=False, sample=None):
        """key: string identifying the case (hashed for distinct counting)."""
        self.evaluations += 1
        if nontrivial:
            self.nontrivial.add(h64(key))
        for l in labels:
            self.labels[l] = self.labels.get(l, 0) + 1
        if sample is not None:
            for l in (list(labels)[:4] + ["*"]) if nontrivial else ["trivial"]:
                s = self.samples.setdefault(l, [])
                if len(s) < 2:
                    s.append(sample)

    def record_bulk(self, evaluations, nontrivial, labels=None):
        self.evaluations += evaluations
        self.bulk_nontrivial += nontrivial
        for l, c in (labels or {}).items():
            self.labels[l] = self.labels.get(l, 0) + c

    def note(self, key, value):
        self.notes[key] = value

    # ---- failures ------------------------------------------------------------------
    def is_known_open(self, bucket):
        import fnmatch

        for f in self.known:
            if f.get("status") == "open" and fnmatch.fnmatchcase(bucket, f["bucket"]):
                return True
        return False

    def fail(self, bucket, case, detail="", raise_=False):
        size = len(jdump(case))
        cur = self.failures.get(bucket)
        if cur is None:
            self.failures[bucket] = dict(case=case, detail=str(detail)[:4000], size=size, count=1)
        else:
            cur["count"] += 1
            if raise_ or size < cur["size"]:
                cur.update(case=case, detail=str(detail)[:4000], size=size)
        if raise_:
            raise _Failure(bucket)

    def result(self):
        return dict(
            shard=self.shard,
            evaluations=self.evaluations,
            bulk_nontrivial=self.bulk_nontrivial,
            nontrivial=sorted(self.nontrivial),
            labels=self.labels,
            samples=self.samples,
            failures=self.failures,
            excluded=self.excluded,
            notes=self.notes,
            exhaustive=self.exhaustive,
            inconclusive=self.inconclusive,
            wall_s=time.time() - self.t0,
        )


class _Failure(Exception):
    pass


def repo_frame_bucket(exc, repo_src=None):
    """(exception type, innermost frame under $VERIF_REPO/src: file, function)."""
    from . import build

    repo_src = repo_src or build.SRC
    tb = traceback.extract_tb(exc.__traceback__)
    fr = None
    for f in tb:
        if f.filename.startswith(repo_src) or "/.build/" in f.filename or f.filename.endswith(".pyx"):
            fr = f
    if fr is None:
        return "%s:?:?" % type(exc).__name__
    return "%s:%s:%s" % (type(exc).__name__, os.path.basename(fr.filename), fr.name)
