"""Plain delta debugging over a list (used where Hypothesis' shrinker is not in the loop)."""
import time


def ddmin(items, still_fails, budget_s=60.0):
    """Returns a 1-minimal sub-list of items for which still_fails(sublist) is true (assumes it is true for items)."""
    items = list(items)
    t0 = time.time()
    n = 2
    while len(items) >= 2:
        if time.time() - t0 > budget_s:
            break
        chunk = max(1, len(items) // n)
        subsets = [items[i:i + chunk] for i in range(0, len(items), chunk)]
        reduced = False
        for i in range(len(subsets)):
            complement = [x for j, sub in enumerate(subsets) if j != i for x in sub]
            if still_fails(complement):
                items = complement
                n = max(n - 1, 2)
                reduced = True
                break
        if not reduced:
            if n >= len(items):
                break
            n = min(len(items), n * 2)
    if len(items) == 1 and still_fails([]):
        return []
    return items
