"""Well-formed document grammar (C02 / C07 / C08): a recursive generator producing wikitext together with the expected
(word, ancestor-chain) sequence.  Every visible word is a unique token wq<5 digits>x.  All choices come from the
random.Random handed in (Hypothesis' st.randoms(), so that shrinking and replay work).  Ported from the design spike."""
STY = {"b":("'''","'''","Strong"),"i":("''","''","Emphasized"),"hb":("<b>","</b>","Strong"),"hs":("<strong>","</strong>","Strong"),"hi":("<i>","</i>","Emphasized"),"he":("<em>","</em>","Emphasized"),"u":("<u>","</u>","Underline"),"sup":("<sup>","</sup>","Sup"),"sub":("<sub>","</sub>","Sub"),"small":("<small>","</small>","Small"),"big":("<big>","</big>","Big"),"s":("<s>","</s>","Strike"),"tt":("<tt>","</tt>","Teletyped"),"cite":("<cite>","</cite>","Cite"),"del":("<del>","</del>","Deleted"),"ins":("<ins>","</ins>","Inserted")}
STYCLS = set(v[2] for v in STY.values())
class G:
    def __init__(s, rng, lang, restricted=False):
        from ..wikidb import siteinfo
        s.r=rng; s.n=0; s.lang=lang; s.si=siteinfo(lang); s.restricted=restricted; s.features=set(); s.big_table_words=[]; s.tall_rows=[]
    def w(s): s.n+=1; return "wq%05dx"%s.n
    _FP={}
    def iwprefixes(s):
        """(a project namespace named like an interwiki prefix - 'Wikipedia' - is written with the leading colon only)"""
        if not hasattr(s,"_iw"): s._iw={e["prefix"].lower() for e in s.si.get("interwikimap",[])}
        return s._iw
    def foreign_prefixes(s):
        """local names of the project/help/template namespaces of the other bundled sites that mean nothing on this site"""
        if s.lang not in G._FP:
            from ..wikidb import siteinfo
            from mwlib.core import nshandling
            h=nshandling.NsHandler(s.si); out=[]
            for l in "de en es fr it ja nl no pl pt simple sv".split():
                if l==s.lang: continue
                o=siteinfo(l)
                for ns in ("12","4","10","2"):
                    nm=o["namespaces"][ns]["*"]
                    t=nm+":Xq"
                    try: r=h.splitname(t,0)
                    except Exception: continue
                    if r[0]==0 and r[2]==t and " " not in nm and nm.isalpha() and nm not in out and len(nm)>2: out.append(nm)
            iw={e["prefix"].lower() for e in s.si.get("interwikimap",[])}
            G._FP[s.lang]=[x for x in out if x.lower() not in iw]
        return G._FP[s.lang]
    def inline(s, depth, ctx):
        r=s.r; parts=[]; words=[]
        for _ in range(r.randint(1,3)):
            k = r.choice(["t","t","t"]+list(STY)+["bi","link","nslink","ext","ref","barelink","fplink"]) if depth<2 else "t"
            if k=="t":
                w=s.w(); parts.append(w); words.append((w,ctx))
            elif k in STY or k=="bi":
                if k=="bi":
                    if "Strong" in ctx or "Emphasized" in ctx: continue
                    o,c,cl=("'''''","'''''",("Strong","Emphasized"))
                else:
                    o,c,cl=STY[k]; cl=(cl,)
                    if cl[0] in ctx: continue
                    if k in("b","i") and ("Strong" in ctx or "Emphasized" in ctx) and any(x in ctx for x in ("Strong","Emphasized")) and False: continue
                t,ws=s.inline(depth+1, ctx+cl); parts.append(o+t+c); words+=ws
            elif k=="link":
                if any(c.startswith("Link") for c in ctx): continue
                w=s.w(); tgt="Tgt "+w; parts.append(f"[[{tgt}|{w}]]"); words.append((w,ctx+("Link:"+tgt+"@0",)))
            elif k=="barelink":
                if any(c.startswith("Link") for c in ctx): continue
                w=s.w(); w2=w.capitalize(); parts.append(f"[[{w2}]]"); words.append((w2,ctx+("Link:"+w2+"@0",)))
            elif k=="nslink":
                if any(c.startswith("Link") for c in ctx): continue
                w=s.w(); ns=s.r.choice(["12","4","14","10"]); nsn=s.si["namespaces"][ns]["*"]; tgt=f"{nsn}:X{w}"; colon=":" if ns=="14" or s.r.random()<.5 or nsn.lower() in s.iwprefixes() else ""; parts.append(f"[[{colon}{tgt}|{w}]]"); words.append((w,ctx+("Link:"+tgt+"@ns",)))
            elif k=="fplink":
                # a prefix that names a namespace on another bundled site but not on this one: part of an article title here
                if any(c.startswith("Link") for c in ctx): continue
                pref=s.r.choice(s.foreign_prefixes()) if s.foreign_prefixes() else None
                if not pref: continue
                w=s.w(); tgt=f"{pref}:X{w}"; parts.append(f"[[{tgt}|{w}]]"); words.append((w,ctx+("Link:"+tgt+"@0",))); s.features.add("foreign-prefix-link")
            elif k=="ext":
                if any(c.startswith("Link") for c in ctx): continue
                w=s.w(); parts.append(f"[http://x.org/{w} {w}]"); words.append((w,ctx+("Link:http://x.org/"+w,)))
            elif k=="ref":
                if "Ref" in ctx or any(c.startswith("Link") for c in ctx): continue
                t,ws=s.inline(depth+1, ctx+("Ref",)); nm = s.r.choice(["", ' name="n%d"'%s.n, " name=n%d"%s.n]); parts.append(f"<ref{nm}>"+t+"</ref>"); words+=ws
        if not parts:
            w=s.w(); parts.append(w); words.append((w,ctx))
        return " ".join(parts), words
    def lst(s, prefix, ctx, depth):
        out=[]; words=[]; kind=s.r.choice("*#")
        for _ in range(s.r.randint(1,3)):
            c2=ctx+("List:"+kind,"Item"); t,ws=s.inline(1,c2); out.append(prefix+kind+s.r.choice([" ",""])+t); words+=ws
            if depth<2 and s.r.random()<.3:
                o,ws=s.lst(prefix+kind,c2,depth+1); out+=o; words+=ws
        return out,words
    def htmllist(s, ctx):
        kind=s.r.choice("*#"); tag="ul" if kind=="*" else "ol"; out=["<%s>"%tag]; words=[]
        for _ in range(s.r.randint(1,3)):
            t,ws=s.inline(1,ctx+("List:"+kind,"Item")); out.append("<li>"+t+"</li>"); words+=ws
        out.append("</%s>"%tag); return out,words
    def cellcontent(s, ctx, depth):
        k=s.r.choice(["i","i","i","l","t"] if depth<1 else ["i"])
        if k=="t" and s.restricted:
            # the cleaner documents a layout-table heuristic (split_table_to_columns: a two-column table holding three or
            # more bordered tables is linearised column by column); ordinary content has at most two nested tables per table
            s.nested_in_current = getattr(s, "nested_in_current", 0) + 1
            if s.nested_in_current > 2: k="i"
        if k=="i": t,ws=s.inline(1,ctx); return [t],ws,True
        if k=="l": o,ws=s.lst("",ctx,1); return [""]+o,ws,False
        o,ws=s.table(ctx,depth+1); return [""]+o,ws,False
    def table(s, ctx, depth=0):
        if depth==0: s.nested_in_current=0
        out=["{|"+s.r.choice([""," class=\"wikitable\""," border=1"])]; words=[]; c0=ctx+("Table",)
        if s.r.random()<.3:
            t,ws=s.inline(2,c0+("Caption",)); out.append("|+ "+t); words+=ws
        ncol=s.r.randint(1,3)
        for ri in range(s.r.randint(1,3)):
            if ri>0 or s.r.random()<.7: out.append("|-"+s.r.choice([""," style=\"x:y\""]))
            hdr = ri==0 and s.r.random()<.5
            rowhdr = (not hdr) and ncol>1 and s.r.random()<.3   # a header cell followed by data cells in one row
            cells=[]; inl=True; marks=[]
            # a tall cell (6-7 paragraphs): above the cleaner's page-height estimate, so the row is split into several rows
            tallcol = s.r.randrange(ncol) if (depth==0 and ncol>=2 and not hdr and not getattr(s,"tall_done",False) and s.r.random()<.12) else None
            rowwords=[]
            for ci in range(ncol):
                ishdr = hdr or (rowhdr and ci==0)
                marks.append("!" if ishdr else "|")
                cctx=c0+("Row","Cell:h" if ishdr else "Cell:d")
                if ci==tallcol:
                    o=[]; ws=[]
                    for pi in range(s.r.randint(6,7)):
                        pw=[s.w() for _ in range(s.r.randint(16,20))]
                        o+=[" ".join(pw),""]; ws+=[(w,cctx) for w in pw]
                    o=o[:-1]; i1=False; s.tall_done=True; s.features.add("tall-cell")
                else:
                    o,ws,i1=s.cellcontent(cctx, depth)
                cells.append(o); words+=ws; inl=inl and i1; rowwords+=[w for w,_ in ws]
            if tallcol is not None: s.tall_rows.append(rowwords)
            m="!" if hdr else "|"
            if inl and not rowhdr and s.r.random()<.5:
                out.append(m+" "+(" "+m+m+" ").join(c[0] for c in cells))
            else:
                if rowhdr: s.features.add("row-header")
                for c,mk in zip(cells,marks):
                    attr=s.r.choice([""," align=left |",' style="a:b" |'])
                    out.append(mk+attr+" "+c[0]); out+=c[1:]
        out.append("|}")
        if ncol>=2 and ri>=1 and depth==0:
            s.big_table_words += [w for w,c in words if "Caption" not in c]
        return out,words
    def htmltable(s, ctx):
        out=["<table>"]; words=[]; c0=ctx+("Table",)
        for ri in range(s.r.randint(1,3)):
            out.append("<tr>"); hdr=ri==0 and s.r.random()<.5
            for ci in range(s.r.randint(1,3)):
                t,ws=s.inline(1,c0+("Row","Cell:h" if hdr else "Cell:d")); tg="th" if hdr else "td"; out.append(f"<{tg}>{t}</{tg}>"); words+=ws
            out.append("</tr>")
        out.append("</table>"); return out,words
    def blocks(s, ctx, n):
        out=[]; words=[]
        kinds=[s.r.choice(["p","p","p2","l","hl","t","ht","pre","dl","dl2","ind","ll","jl"]) for _ in range(n)]
        LISTY=("l","dl","dl2","ind","ll","jl")
        for bi,k in enumerate(kinds):
            if k=="p":
                t,ws=s.inline(0,ctx); out.append(t); words+=ws
            elif k=="p2":
                t,ws=s.inline(0,ctx); t2,ws2=s.inline(0,ctx); out+=[t,t2]; words+=ws+ws2
            elif k=="l": o,ws=s.lst("",ctx,0); out+=o; words+=ws
            elif k=="hl": o,ws=s.htmllist(ctx); out+=o; words+=ws
            elif k=="t": o,ws=s.table(ctx); out+=o; words+=ws
            elif k=="ht": o,ws=s.htmltable(ctx); out+=o; words+=ws
            elif k=="pre":
                w=s.w(); w2=s.w(); out+=[" "+w," "+w2]; words+=[(w,ctx+("Pre",)),(w2,ctx+("Pre",))]
            elif k=="dl":
                t1,w1=s.inline(2,ctx+("DT",)); t2,w2=s.inline(2,ctx+("DD",)); out.append("; "+t1+" : "+t2); words+=w1+w2
            elif k=="dl2":
                t1,w1=s.inline(2,ctx+("DT",)); t2,w2=s.inline(2,ctx+("DD",)); out+=[";"+t1, ":"+t2]; words+=w1+w2
            elif k=="ind":
                t1,w1=s.inline(1,ctx+("DD",)); t2,w2=s.inline(1,ctx+("DD","DD")); out+=[": "+t1, ":: "+t2]; words+=w1+w2
            elif k=="jl":
                # a list whose first entries are written one level deeper than the following ones ('** a' / '* c')
                k1=s.r.choice("*#"); k2=s.r.choice("*#")
                for _ in range(s.r.randint(1,2)):
                    t,ws=s.inline(1,ctx+("List:"+k1,"Item","List:"+k2,"Item")); out.append(k1+k2+" "+t); words+=ws
                for _ in range(s.r.randint(1,2)):
                    t,ws=s.inline(1,ctx+("List:"+k1,"Item")); out.append(k1+" "+t); words+=ws
                s.features.add("jump-list")
            elif k=="ll":
                # a list whose items are bare links only (their visible text is the link target)
                for _ in range(s.r.randint(1,3)):
                    w=s.w().capitalize(); out.append("* [["+w+"]]"); words.append((w,ctx+("List:*","Item","Link:"+w+"@0")))
            # list-like blocks may follow each other without a blank line
            tight = k in LISTY and bi+1<len(kinds) and kinds[bi+1] in LISTY
            out += [""]*s.r.randint(0 if tight else 1,2)
        return out,words
    def doc(s):
        out,words=s.blocks((), s.r.randint(0,2)); stack=[]
        for _ in range(s.r.randint(0,4)):
            lvl=s.r.randint(2,5)
            while stack and stack[-1]>=lvl: stack.pop()
            stack.append(lvl); ctx=tuple("Sec:%d"%l for l in stack)
            t,ws=s.inline(1, ctx+("Heading",)); sp=s.r.choice([" ",""]); out.append("="*lvl+sp+t+sp+"="*lvl+s.r.choice([""," "])); words+=ws
            o,ws=s.blocks(ctx, s.r.randint(1,3)); out+=o; words+=ws
        return "\n".join(out)+"\n", words
