"""Scanner-relevant lexemes: at least one spelling for every t_* rule of _uscan.re.
Shared by the exhaustive enumeration (C10), the native fuzz target and the soup generator."""

SCAN_LEXEMES = [
    "a", "Z9", " ", "\t", "\n", "\n\n", "\n \n", "_", "__",
    "[[", "]]", "[", "]", "{|", "|}", "|-", "|--", "|", "!", "||", "|!", "!!", "|+", "|++",
    ":", ";", "*", "#", ":{|", "=", "==", "== ", "===", "----", "---",
    "''", "'''", "'''''", "'",
    "<b>", "</b>", "<br/>", "<", ">", "<a b='c'>", "<!--", "-->", "<!-- c -->",
    "&amp;", "&#65;", "&#x41;", "&", ";x", "&#x;",
    "http://x.y", "https://a/b?c", "//r.s", "[http://x.y", "[//r.s", "ftp://f.g", "[ftp://f.g", "mailto:a@b.c",
    "[mailto:a@b.c", "irc://i.j", "news:n.o", "[news:n.o", "[irc://i.j", "http", "://",
    "__TOC__", "__NOTOC__", "__END__",
    "\x7fUNIQ-ab1-2-3f-QINU\x7f", "\x7f", "UNIQ-", "-QINU",
    "", "\x00", "\U0001F600", "é", "‎", "\r",
]

# a compact subset for the length-4 exhaustive enumeration (one representative per rule + the rewind triggers)
SCAN_CORE = [
    "a", " ", "\t", "\n", "\n\n", "_", "[[", "]]", "[", "{|", "|}", "|-", "|", "!", "||", "!!", "|+",
    ":", "*", "=", "== ", "----", "''", "<b>", "<", ">", "<!--", "-->", "&amp;", "&", "http://x.y", "[http://x.y",
    "//r.s", "mailto:a@b.c", "__TOC__", "\x7fUNIQ-ab1-2-3f-QINU\x7f", "\x7f", "", "\x00", "\U0001F600",
]
