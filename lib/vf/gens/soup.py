"""Wikitext token soup: a lexeme table built from the scanner grammar, the allowed HTML tags, the uniquified
extension tags, entities (well- and ill-formed, out of range), template syntax, control characters; plus the
attribute values that switch individual tree-cleaner passes on.  A case is a list of lexemes, joined."""
from hypothesis import strategies as st

HTML_TAGS = ["abbr", "b", "big", "blockquote", "br", "center", "cite", "code", "del", "div", "em", "font", "h1", "h2", "h3",
             "h4", "h5", "h6", "hr", "i", "index", "inputbox", "ins", "kbd", "li", "ol", "p", "pages", "references", "rss", "s",
             "small", "span", "strike", "strong", "sub", "sup", "caption", "table", "td", "th", "tr", "tt", "u", "ul", "var", "dl",
             "dt", "dd", "mapframe", "startfeed", "endfeed"]
UNIQ_TAGS = ["nowiki", "math", "imagemap", "gallery", "source", "pre", "ref", "timeline", "poem", "pages",
             "rot13", "idl", "syntaxhighlight", "rdf", "time", "hiero", "section", "listing", "see", "buy", "do", "eat", "drink", "sleep"]
ATTRS = ["", "", ' style="color:red"', ' class="noprint"', ' class="navbox"', ' class="infobox"', ' id="region_list"',
         ' style="overflow:auto;height:200px"', ' style="position:absolute"', ' style="display:none"', " colspan=2", " rowspan=3",
         ' align="right"', ' width="50%"', ' style="float:right;width:20em"', ' name="n1"', ' group="g"', " lang=python",
         ' class="wikitable sortable"', ' border="1"', " x", ' a="b" c=\'d\' e', ' style="font-size:200%"', ' class="editlink"',
         ' style="height:100px;overflow:scroll"', ' \x7fUNIQ-ref-0-0123abcd-QINU\x7f', ' title="\x7fUNIQ-nowiki-1-abcdef01-QINU\x7f"',
         ' x=&#99999999999;', ' title="<b>"', ' style="&amp;"', ' title="[[A]]"', ' title="{{T}}"', " title=\"''x''\"", ' a=\x00', ' \ud7ff=1', ' class="metadata"', ' style="visibility:hidden"', ' class="thumb tright"']

MARKUP = {
    "link": ["[[File:a.png]]", "[[File:b.png|thumb|cap]]", "[[Image:c.jpg|20px]]", "[[File:d.svg|frame|left|x]]", "[[", "]]", "[[A]]", "[[A|b]]", "[[:Category:X]]", "[[Category:X]]", "[[de:X]]", "[[:en:X]]", "[[File:a.png|", "[[Image:x.jpg|thumb|left|",
             "thumb|", "100px|", "px", "[[#frag]]", "[[A#b|c]]", "[[/sub]]", "[[A]]s", "[[w:X]]"],
    "url": ["[http://x.org ", "[", "]", "http://a.b/c", "https://a/b?c=d&e", "//r.s/t", "[//r.s t]", "mailto:a@b.c", "[mailto:a@b.c m]", "ftp://f.g",
            "irc://i.j", "news:n.o", "[http://x.org]", "http://"],
    "table": ["{|", "|}", "\n{|", "\n|}", "\n|-\n", "\n|", "\n!", "||", "!!", "|!", "|+", "\n|+", "|", "!", "\n{| class=\"wikitable\"\n", "\n|-",
              "\n| colspan=2 |", "\n! scope=col |", ":{|", "\n|--", "{|\n|\n|}"],
    "heading": ["==", "\n== ", " ==\n", "\n=", "=\n", "===", "\n==== x ====\n", "=", "\n== a ==\n", "======", "\n=======x=======\n"],
    "quote": ["''", "'''", "'''''", "'", "''''", "''''''", "'''''''"],
    "list": ["*", "\n*", "\n#", "\n:", "\n;", "\n**", "\n*#", "\n#:", "\n;a:b", ":", ";", "\n:::", "\n*:#;", "\n;:"],
    "line": ["\n", "\n\n", "\n \n", "\n ", " ", "\n----", "----", "\n-----\n", "\t", "\r", "\r\n", "\n  pre\n", "\n\n\n"],
    "magic": ["__TOC__", "__NOTOC__", "__NOEDITSECTION__", "__FORCETOC__", "__NOGALLERY__", "__START__", "__END__", "~~~~", "~~~", "~~~~~"],
    "comment": ["<!--", "-->", "<!-- c -->", "<!--\n-->", "\n<!-- x -->\n"],
    "entity": ["&amp;", "&lt;", "&gt;", "&nbsp;", "&#65;", "&#x41;", "&#X41;", "&unknown;", "&amp", "&;", "&#;", "&#x;", "&#1114112;", "&#xD800;", "&#55296;",
               "&#99999999999;", "&#xFFFFFFFFFF;", "&#0;", "&#x0;", "&#6_5;", "&#+65;", "&# 65;", "&#x110000;", "&#127;", "&#xEBAD;", "&#9;", "&",
               "&#00000000000000000000000065;", "&#x00000000000000000041;", "&#٣;", "&#x１;"],
    "template": ["{{", "}}", "{{{", "}}}", "{{T}}", "{{T|a=b}}", "{{T|x}}", "{{Loop}}", "{{#if:", "{{#if:x|y|z}}", "{{#switch:", "{{#expr:1+1}}", "{{{1}}}",
                 "{{{1|d}}}", "{{PAGENAME}}", "{{lc:", "{{#ifeq:", "{{:A}}", "{{/sub}}", "{{Missing}}", "{{T2|{{T}}}}", "{{#tag:ref|x}}", "{{!}}", "{{=}}",
                 "{{#ifexist:A|y|n}}", "{{subst:T}}", "{{msg:T}}", "{{int:x}}", "{{ns:6}}", "{{urlencode:a b}}", "{{anchorencode:a b}}", "{{#time:Y}}",
                 "{{padleft:x|5}}", "{{fullurl:A}}", "{{localurl:A|b=c}}", "{{formatnum:1234.5}}", "{{#titleparts:a/b/c|1|2}}", "{{#rel2abs:../x}}"],
    "include": ["<noinclude>", "</noinclude>", "<includeonly>", "</includeonly>", "<onlyinclude>", "</onlyinclude>"],
    "control": ["\x00", "\x7f", "\x7fUNIQ-a-1-abc-QINU\x7f", "\x7fUNIQ-", "-QINU\x7f", "", "‎", "‏", "\U0001F600", "﻿", "\x0c", "\x1b",
                " ", " ", "\x08", "퟿", "", "￿", "\U0010FFFF", "é", "日本", "́"],
    "text": ["a", "b c", "word", "Foo", "1", "x y z", ".", ",", "-", "/", "(", ")", "\"", "\\", "%", "$", "@", "^", "~", "`", "#", "+", "_", "<", ">", "</", "/>", "<>", "< b>"],
    "special-tag": ["<references/>", "<references />", "<references>", "</references>", "<br>", "<br/>", "<br />", "</br>", "<hr>", "<pages from=1 to=2/>",
                    "<pages from=A to=B/>", "<ref name=a/>", "<ref name=\"a\" />", "<ref>", "</ref>", "<gallery>\nFile:a.png|c\n</gallery>", "<gallery>",
                    "</gallery>", "<imagemap>\nFile:a.png|10px\nrect 0 0 1 1 [[A]]\n</imagemap>", "<imagemap>", "</imagemap>", "<math>x^2</math>",
                    "<math>", "</math>", "<nowiki>", "</nowiki>", "<nowiki/>", "<nowiki />", "<pre>", "</pre>", "<source lang=x>", "</source>",
                    "<syntaxhighlight lang=\"c\">", "</syntaxhighlight>", "<timeline>", "</timeline>", "<poem>", "</poem>", "<rot13>", "</rot13>",
                    "<inputbox>", "</inputbox>", "<hiero>", "</hiero>", "<listing name=x>", "</listing>", "<section begin=a/>", "<time>", "<idl>", "</idl>",
                    "<div class=\"noprint\">", "<div style=\"overflow:auto;height:200px\">", "<div id=region_list>", "<div style=\"position:absolute\">",
                    "<span style=\"display:none\">", "<table class=\"navbox\">", "<div class=\"thumb\">", "<center>", "</center>", "<font size=5>", "</font>"],
}


# numbers in markup: huge values and values too long for int() (a digit string above CPython's 4300-digit limit raises ValueError)
N11, N5000 = "99999999999", "9" * 5000
MARKUP["bignum"] = [
    "&#" + N5000 + ";", "&#x" + "F" * 5000 + ";",
    '<pages index="T" from=1 to=2 />', '<pages index="x" from=1 to=99999999 />', '<pages index=T from=1 to=' + N5000 + ' />', '<pages index=T from=' + N11 + ' to=' + N11 + '9 />',
    "<imagemap>\nFile:a.png\nrect " + N5000 + " 1 2 3 [[A]]\n</imagemap>", "<imagemap>\nFile:a.png\ncircle " + N11 + " 1 " + N11 + " [[A]]\n</imagemap>",
    "[[File:a.png|" + N11 + "px]]", "[[File:a.png|" + N5000 + "px]]", "[[File:a.png|thumb|upright=" + N11 + "]]", "[[File:a.png|" + N11 + "x" + N11 + "px|c]]",
    "<gallery widths=" + N11 + " perrow=" + N11 + ">\nFile:a.png|c\n</gallery>", "<gallery perrow=" + N5000 + ">\nFile:a.png\n</gallery>",
    "\n{|\n| colspan=" + N11 + " | a\n| rowspan=" + N11 + " | b\n|}", "\n{|\n| colspan=" + N5000 + " | a\n|-\n| rowspan=" + N5000 + " | b\n|}",
    "<td colspan=" + N11 + ">", "<ol start=" + N11 + "><li>a</li></ol>", "<li value=" + N5000 + ">", "<font size=" + N11 + ">", "<font size=" + N5000 + ">",
    '<div style="width:' + N11 + 'px;height:' + N5000 + 'em">', '<span style="font-size:' + N11 + '%">', "<hr width=" + N11 + ">",
    "{{padleft:x|" + N11 + "}}", "{{#expr:" + N5000 + "}}", "{{#time:Y|" + N11 + "}}", "{{formatnum:" + N5000 + "}}", "{{#titleparts:a/b|" + N11 + "|" + N5000 + "}}",
    # parser functions inside <ref>/<poem>: expanded by the default expander when no wiki db is behind the parser
    "<ref>{{#ifexist:n}}</ref>", "<ref>{{#ifexist:File:a.png|y|n}} {{PAGENAME}} {{fullurl:A}} {{#time:Y}} {{REVISIONID}}</ref>", "<poem>{{#ifexist:A|y}}\n{{:A}} {{T|x}}</poem>",
    "<ref name=" + N5000 + "/>", "<timeline>\nImageSize = width:" + N11 + " height:" + N5000 + "\n</timeline>", "<math>" + N5000 + "</math>",
    # attribute values that are all digits (the attribute parser turns them into int)
    "<div class=2024>", '<div class="7">x</div>', "<span id=5>", "<table class=1><tr><td id=2>x", "<div style=3>", '<p lang="0">', "<ol type=1><li>a", '<span title="42">',
    "\n{| class=3\n|- id=4\n| x\n|}", "<ref name=1>x</ref><ref name=1/>", "<font color=0>", "<div align=9>",
    "<source lang=c start=" + N11 + " line>x</source>", "<br clear=" + N11 + ">", "<table border=" + N5000 + "><tr><td>x",
]

# constructs that switch individual tree-cleaner passes on (read off the passes' own conditions)
MARKUP["trigger"] = [
    "[http://x.org/w?action=edit e]", "[http://x.org/w/index.php?title=A&action=edit]",
    "\n== See also ==\n* [[A]]\n", "\n==See also==\n",
    "<sup>" + "long superscript " * 13 + "</sup>", "<sub>" + "s" * 210 + "</sub>",
    "<u><center>x</center></u>", "<center><u>x</u></center>", "<s><center>", "<b><center>x</center></b>",
    "[[File:BSicon x.svg]]", "\n{|\n|[[File:BSicon STR.svg]]\n|}",
    '<span class="printonly">[http://x.org y]</span>', '<div class="printonly">http://x.org</div>',
    "[[File:x.ogg]]", "[[File:a.ogg|thumb|c]]", "[[Image:b.OGG]]",
    "\n{|\n|\n{|\n|" + "||".join(["c"] * 17) + "\n|}\n|}",
    "\n{|\n|\n" + "* i\n" * 6 + "|\n" + "* j\n" * 7 + "|}",
    "\n{|\n|" + "word " * 1100 + "\n|}",
    "\n{|\n|\n== s ==\n" + "w " * 1100 + "\n|}",
    "\n{|\n|" + ("\n\n" + "lorem ipsum " * 40) * 6 + "\n|b\n|}",
    "\n{|\n\n== a ==\n\n|}\n| x", "\n{|\n== s ==\n|}\ntext\n\nmore", "<div>\n== h ==\n</div>\n\npara",
    "{|\n|\n{|\n| " + "word " * 150 + "|| b\n|-\n| c || d\n|}\n|}\n",
    '<div id="region_list"><center>\n{|\n|a\n|}\n</center></div>',
    "\n{|\n|a\n|" + ("\n\n" + "dolor sit amet " * 30) * 8 + "\n|-\n|c||d\n|}",
    "\n{|\n|a\n|" + ("<br/>" + "dolor sit amet " * 30 + "<br/>\n\n") * 8 + "\n|-\n|c||d\n|}",
    "\n{|\n|<br/>" + ("lorem ipsum " * 40 + "\n\n<br/>") * 7 + "\n|b<br/>\n|}",
    # more nesting offenders under one inline parent than a bounded number of repair rounds would fix
    ":<gallery>\nFile:a.png\n</gallery>\n" * 5, " x [[File:a.png]]\n\n y [[File:b.png]]\n\n z [[File:c.png]]\n\n w [[File:d.png]]\n\n v [[File:e.png]]\n",
    "<code>\n p1\n</code><code>\n p2\n</code><code>\n p3\n</code><code>\n p4\n</code><code>\n p5\n</code>", ":{|\n|a\n|}\n" * 5,
    # tables inside an image caption (the caption is inline content: rows and cells end up outside a table)
    "[[File:a.png|thumb|legend\n{|\n|-\n| k || v\n|}\n]]\n", "[[File:b.png|thumb|<table><tr><td>k</td><td>v</td></tr></table>]]\n",
    "[[File:c.png|thumb|<center><table><tr><td>k</td><td>v</td></tr></table></center>]]\n",
    "[[File:d.png|thumb|legend <div style=\"font-size:90%\">\n{|\n|-\n| red || Paris\n|-\n| blue || Rome\n|}\n</div>]]\n",
    "[[File:e.png|thumb|<ul><li>a</li></ul> <center>\n* x\n</center>]]\n",
    "\n{|\n|-\n| item\n| " + "<br/>".join(["lorem ipsum dolor sit amet " * 12] * 6) + "<br/>\n|}",
    "\n{|\n|-\n| <br/>" + "<br/>".join(["lorem ipsum dolor sit amet " * 12] * 7) + "\n| x<br/>y\n|}",
    "\n{|\n|" + "\n".join("* item %d %s" % (i, "text " * 20) for i in range(30)) + "\n|x\n|}",
    '\n{| class="navbox"\n|a\n|b\n|}', '\n{| class="mp-upper"\n|a\n|b\n|}', '\n{| class="infobox"\n|a\n|}',
    "<ref>[[A]] and [[A]]</ref>", "<ref name=n>x</ref><ref name=n/>", "<ref name=n/><ref name=n>late</ref>",
    "[[File:a.png|thumb|" + "caption " * 120 + "]]",
    "\n{|\n|a||b\n|-\n| colspan=2 |\n* x\n* y\n|}",
    "\n{|\n|a\n|}", "\n{|\n|a||b||c\n|}", "\n{|\n|a\n|-\n|b\n|-\n|c\n|}",
    "\n{| border=1\n|+ cap\n|-\n! h\n|}",
    "\n{|\n|" + "||".join("c%d" % i for i in range(16)) + "\n|-\n|" + "||".join("d%d" % i for i in range(16)) + "\n|}",
    "\n{|\n" + "".join("|-\n|r%d||x\n" % i for i in range(26)) + "|}",
    "\n; term : definition\n: more\n", "<dl><dt>t</dt><dd>d</dd></dl>",
    "<br/><br/>\n<br/>", "<div><br/></div>", "<p><br></p>",
    "\n x\n y\n", "<pre>a\n\nb</pre>",
    "<ul><li>a<ul><li>b</li></ul></li></ul>", "<ol><li>a</li>text</ol>", "<ul>x<li>y</ul>",
    "<table><tr><td>a</td>b</tr>c</table>", "<table><td>a</table>", "<tr><td>orphan</td></tr>", "<li>orphan</li>", "<td>orphan</td>",
    "<math>x</math>", "<timeline>x</timeline>", "<gallery>\nFile:a.png\nFile:b.png|c\n</gallery>",
    '<div style="position:absolute;left:1px">x</div>', '<div style="overflow:auto;height:200px">\n{|\n|a\n|}\n</div>',
    '\n{|\n|<div style="overflow:auto;height:200px">x</div>\n|}', '<div id="region_list">\n{|\n|a\n|}\n</div>',
    '<div id=region_list><table><tr><td>a</td></tr></table>\n{|\n|b\n|}</div>',
]


def _tag_lexemes():
    out = []
    for t in HTML_TAGS:
        out += ["<%s>" % t, "</%s>" % t]
    out += ["<%s/>" % t for t in ("br", "hr", "div", "span", "td", "li", "p", "references", "table")]
    out += ["<%s>" % t.upper() for t in ("b", "div", "table", "td", "li", "br")]
    out += ["<%s >" % t for t in ("b", "i", "td")] + ["</%s >" % t for t in ("b", "i", "td")]
    for t in UNIQ_TAGS:
        out += ["<%s>" % t, "</%s>" % t]
    return out


MARKUP["tag"] = _tag_lexemes()
CLASSES = sorted(MARKUP)
ALL = [(c, l) for c in CLASSES for l in MARKUP[c]]


UNITS = ["px", "pt", "em", "%", "", "ex", "cm", "in", "mm", "pc", "px;", " px"]
NUMS = ["0", "1", "12", "100", "200", "1.5", "-3", "99999", "abc", "", "1e3", "50"]


@st.composite
def style_value(draw):
    """style attributes built from property/value/unit combinations (the cleaner and the writers parse these)"""
    props = []
    if draw(st.integers(0, 3)) == 0:
        # the scroll-box rule looks at overflow together with a height in any unit
        props.append("overflow:" + draw(st.sampled_from(["auto", "scroll"])))
        props.append("height:" + draw(st.sampled_from(NUMS)) + draw(st.sampled_from(UNITS)))
    for _ in range(draw(st.integers(1, 3))):
        name = draw(st.sampled_from(["overflow", "height", "width", "position", "display", "float", "font-size", "visibility", "margin",
                                     "border", "text-align", "max-height", "line-height", "padding", "clear", "background"]))
        if name == "overflow":
            val = draw(st.sampled_from(["auto", "scroll", "hidden", "visible"]))
        elif name == "position":
            val = draw(st.sampled_from(["absolute", "relative", "fixed", "static"]))
        elif name == "display":
            val = draw(st.sampled_from(["none", "block", "inline", "table-cell"]))
        elif name in ("float", "text-align", "clear"):
            val = draw(st.sampled_from(["left", "right", "center", "none", "both"]))
        elif name == "visibility":
            val = draw(st.sampled_from(["hidden", "visible"]))
        else:
            val = draw(st.sampled_from(NUMS)) + draw(st.sampled_from(UNITS))
        props.append("%s:%s" % (name, val))
    sep = draw(st.sampled_from([";", "; ", " ;"]))
    return ' style="%s"' % sep.join(props)


def tag_with_attr():
    attr = st.one_of(st.sampled_from(ATTRS), style_value(), style_value())
    return st.tuples(st.sampled_from(["div", "span", "table", "td", "th", "tr", "p", "li", "ul", "ol", "font", "ref", "source", "gallery", "center",
                                      "blockquote", "h2", "caption", "pre", "b", "dl", "dd", "code", "sup"]),
                     attr).map(lambda t: ("tagattr", "<%s%s>" % t))


def table_attr_line():
    return st.one_of(st.sampled_from(ATTRS), style_value()).map(lambda a: ("table", "\n{|%s\n" % a))


def lexeme():
    """(class, text) pairs"""
    by_class = st.sampled_from(CLASSES).flatmap(lambda c: st.sampled_from(MARKUP[c]).map(lambda l: (c, l)))
    free = st.text(st.characters(blacklist_categories=("Cs",)), max_size=6).map(lambda s: ("free", s))
    return st.one_of(by_class, by_class, by_class, by_class, st.sampled_from(ALL), tag_with_attr(), table_attr_line(), free)


@st.composite
def soup(draw, max_size):
    """list of (class, lexeme); some lexemes are repeated at other positions (two images on one line, two galleries
    in one item, ... - defects that need two offenders under one ancestor)"""
    lex = draw(st.lists(lexeme(), min_size=1, max_size=max_size))
    if len(lex) < max_size and draw(st.integers(0, 2)) == 0:
        for _ in range(draw(st.integers(1, 2))):
            item = draw(st.sampled_from(lex))
            lex.insert(draw(st.integers(0, len(lex))), item)
    return lex


WRAPPERS = [("<div>", "</div>"), ("<b>", "</b>"), ("<i>", "</i>"), ("<span>", "</span>"), ("<blockquote>", "</blockquote>"), ("<center>", "</center>"),
            ("[[A|", "]]"), ("{{T|", "}}"), ("{{#if:x|", "}}"), ("\n{|\n|", "\n|}"), ("<table><tr><td>", "</td></tr></table>"), ("<ul><li>", "</li></ul>"),
            ("<ref>", "</ref>"), ("''", "''"), ("'''", "'''"), ("<sup>", "</sup>"), ("<small>", "</small>"), ("[http://x.org ", "]"), ("<dl><dd>", "</dd></dl>"),
            ("\n{|\n|\n{|\n|", "\n|}\n|}"), ("<poem>", "</poem>"), ("<gallery>\nFile:a.png|", "\n</gallery>"), ("{{{1|", "}}}"), ("<font>", "</font>"),
            ("<big>", "</big>"), ("<u>", "</u>"), ("<s>", "</s>"), ("<code>", "</code>"), ("<tt>", "</tt>"), ("<cite>", "</cite>"), ("<ol><li>", "</li></ol>")]
LINEPREFIX = ["*", "#", ":", ";"]


@st.composite
def nested(draw, max_depth=40):
    """(depth, text): depth-parameterised wrappers, closed or left open, to the bound the property states"""
    depth = draw(st.integers(2, max_depth))
    kind = draw(st.integers(0, 3))
    core = "".join(l for _, l in draw(soup(4)))
    if kind == 0:  # one wrapper repeated
        o, c = draw(st.sampled_from(WRAPPERS))
        text = o * depth + core + (c * draw(st.sampled_from([depth, depth, 0, depth // 2])))
    elif kind == 1:  # mixed wrappers
        ws = draw(st.lists(st.sampled_from(WRAPPERS), min_size=depth, max_size=depth))
        text = "".join(o for o, _ in ws) + core + "".join(c for _, c in reversed(ws[: draw(st.sampled_from([depth, 0, depth // 2]))]))
    elif kind == 2:  # list prefixes
        ps = draw(st.lists(st.sampled_from(LINEPREFIX), min_size=depth, max_size=depth))
        text = "\n".join("".join(ps[:k]) + " x" for k in range(1, depth + 1)) + "\n" + core
    else:  # nested sections / tables in cells
        text = "".join("\n{|\n|" for _ in range(min(depth, 40))) + core + "".join("\n|}" for _ in range(draw(st.sampled_from([0, depth]))))
    return depth, text


# ---- misnested containers: element trees whose children ignore the containment rules -------------------
FAMILIES = [
    ["table", "tr", "td", "#text", "span"],
    ["ul", "li", "#text", "table", "tr"],
    ["table", "tr", "td", "th", "caption", "span", "#text"],
    ["table", "tr", "td", "#text", "ul", "li"],
    ["ul", "ol", "li", "dl", "dt", "dd", "div", "#text"],
    ["table", "tr", "td", "li", "ul", "center", "div", "p", "#text", "{|", "|-", "|"],
]


@st.composite
def misnest(draw):
    """text of a small element tree over one family of container tags in which any node may hold any other
    (a table directly in a row, text in a row, a cell in a list, ...); close tags are sometimes left out"""
    fam = draw(st.sampled_from(FAMILIES))
    budget = [draw(st.integers(4, 24))]

    def node(depth):
        budget[0] -= 1
        t = draw(st.sampled_from(fam))
        if t == "#text":
            return draw(st.sampled_from(["x", "word ", "a b", "\n", "\n\n"]))
        if t in ("{|", "|-", "|"):
            return "\n" + t + draw(st.sampled_from(["", " ", "\n"]))
        inner = ""
        if depth < 5:
            for _ in range(draw(st.integers(0, 3))):
                if budget[0] <= 0:
                    break
                inner += node(depth + 1)
        close = "</%s>" % t if draw(st.integers(0, 3)) else ""
        return "<%s>" % t + inner + close

    out = ""
    while budget[0] > 0:
        out += node(0)
    return out
