"""Parent runner: build -> shard -> watchdog -> merge -> evidence -> exit code."""
import argparse
import importlib
import json
import logging
import os
import shutil
import signal
import subprocess
import sys
import tempfile
import time

from . import build, findings
from .ctx import Ctx, HarnessError, h64, jdump

VERIF = build.VERIF


def _evidence_dir():
    return os.environ.get("VERIF_EVIDENCE_DIR") or os.path.join(VERIF, "evidence")


def _evidence_path(prop):
    return os.path.join(_evidence_dir(), "%s.json" % prop)


def write_evidence(prop, meta, tier, seed, cov, wall, violations, extra_assumptions=()):
    os.makedirs(_evidence_dir(), exist_ok=True)
    ev = dict(
        property_id=prop,
        tier=tier,
        seed=int(seed),
        level=meta.get("level", "exploration"),
        coverage=cov,
        assumptions=list(meta.get("assumptions", [])) + list(extra_assumptions),
        wall_s=round(wall, 2),
        violations=violations,
    )
    tmp = _evidence_path(prop) + ".tmp"
    with open(tmp, "w") as f:
        json.dump(ev, f, indent=1, sort_keys=True, ensure_ascii=True, default=repr)
    os.replace(tmp, _evidence_path(prop))


def write_replay(prop, bucket, seed, fail):
    d = os.path.join(VERIF, "replays", prop)
    os.makedirs(d, exist_ok=True)
    body = dict(property=prop, bucket=bucket, seed=int(seed), case=fail["case"],
                detail=fail.get("detail", ""), count=fail.get("count", 1))
    p = os.path.join(d, "%s.json" % h64(bucket + jdump(fail["case"])))
    with open(p, "w") as f:
        json.dump(body, f, indent=1, sort_keys=True, ensure_ascii=True, default=repr)
    return p


def report_failures(prop, seed, failures):
    """Print KNOWN-FINDING / VIOLATION lines.  Returns number of violations."""
    nviol = 0
    known_hit = {}
    for bucket in sorted(failures):
        f = failures[bucket]
        kf = findings.match_open(prop, bucket)
        if kf is not None:
            known_hit.setdefault(kf["bucket"], [kf, 0])[1] += f.get("count", 1)
            continue
        path = write_replay(prop, bucket, seed, f)
        nviol += 1
        print("VIOLATION property=%s replay=%s" % (prop, path))
        print("  bucket: %s (hit %d times)" % (bucket, f.get("count", 1)))
        print("  case: %s" % jdump(f["case"])[:600])
        print("  detail: %s" % str(f.get("detail", ""))[:1200].replace("\n", "\n    "))
    for kb, (kf, cnt) in sorted(known_hit.items()):
        print("KNOWN-FINDING: property=%s %s [bucket %s, %d hits]" % (prop, kf["text"], kb, cnt))
    return nviol, known_hit


def run_replay(prop, mod, path, tier, seed):
    with open(path) as f:
        d = json.load(f)
    case = d["case"] if isinstance(d, dict) and "case" in d else d
    ctx = Ctx(prop, tier, seed, 0, 1, tempfile.gettempdir(), known=findings.for_property(prop))
    mod.replay(ctx, case)
    if not ctx.failures:
        print("replay %s: property holds on this case" % path)
        return 0
    nviol, _ = report_failures(prop, seed, ctx.failures)
    return 1 if nviol else 0


def main(argv=None):
    ap = argparse.ArgumentParser()
    ap.add_argument("prop")
    ap.add_argument("--tier", default=os.environ.get("VERIF_TIER", "quick"), choices=["quick", "thorough"])
    ap.add_argument("--seed", default=os.environ.get("VERIF_SEED", "1"))
    ap.add_argument("--replay")
    ap.add_argument("--shards", type=int, default=int(os.environ.get("VERIF_SHARDS", "16")))
    a = ap.parse_args(argv)
    prop = a.prop.upper()
    try:
        seed = int(a.seed)
    except ValueError:
        seed = int.from_bytes(a.seed.encode(), "big") % (2 ** 31)
    logging.disable(logging.CRITICAL)
    t0 = time.time()
    scratch = tempfile.mkdtemp(prefix="vf-%s-" % prop)
    os.environ["TMPDIR"] = scratch
    tempfile.tempdir = scratch
    procs = []

    def cleanup(*_):
        for p in procs:
            if p.poll() is None:
                try:
                    os.killpg(p.pid, signal.SIGKILL)
                except Exception:
                    pass
        shutil.rmtree(scratch, ignore_errors=True)

    def on_term(signum, frame):
        cleanup()
        os._exit(2)

    signal.signal(signal.SIGTERM, on_term)
    signal.signal(signal.SIGINT, on_term)
    try:
        try:
            build.install()
            mod = importlib.import_module("vf.props.%s" % prop.lower())
        except Exception as e:
            import traceback

            traceback.print_exc()
            print("HARNESS-ERROR property=%s build/import failed: %s" % (prop, e))
            return 2
        meta = mod.META
        if a.replay:
            return run_replay(prop, mod, a.replay, a.tier, seed)

        if hasattr(mod, "prepare"):
            try:
                mod.prepare()
            except HarnessError as e:
                print("HARNESS-ERROR property=%s %s" % (prop, e))
                return 2
        nshards = min(a.shards, meta.get("max_shards", 64))
        for i in range(nshards):
            log = open(os.path.join(scratch, "log%02d" % i), "w")
            p = subprocess.Popen(
                [sys.executable, "-W", "ignore", "-m", "vf.worker", prop, a.tier, str(seed), str(i),
                 str(nshards), scratch],
                stdout=log, stderr=subprocess.STDOUT, start_new_session=True,
            )
            procs.append(p)
        stall_s = meta.get("stall_s", 120 if a.tier == "quick" else 300)
        stalled = {}
        last_change = {i: (None, time.time()) for i in range(nshards)}
        while any(p.poll() is None for p in procs):
            time.sleep(0.25)
            now = time.time()
            for i, p in enumerate(procs):
                if p.poll() is not None:
                    continue
                cur = os.path.join(scratch, "current%02d" % i)
                try:
                    st = os.stat(cur)
                    sig = (st.st_mtime_ns, st.st_size)
                except OSError:
                    sig = None
                if sig != last_change[i][0]:
                    last_change[i] = (sig, now)
                elif sig is not None and sig[1] > 0 and now - last_change[i][1] > stall_s:
                    try:
                        with open(cur) as f:
                            stalled[i] = f.read()
                    except OSError:
                        stalled[i] = ""
                    os.killpg(p.pid, signal.SIGKILL)
        # ---- merge ----------------------------------------------------------------
        evaluations = 0
        bulk = 0
        nontrivial = set()
        labels = {}
        samples = {}
        failures = {}
        notes = {}
        excluded = 0
        exhaustive = []
        inconclusive = []
        harness_errors = []
        crashed = {}
        for i in range(nshards):
            path = os.path.join(scratch, "shard%02d.json" % i)
            if not os.path.exists(path):
                if i in stalled:
                    inconclusive.append("shard %d killed by the stall watchdog" % i)
                    continue
                rc = procs[i].returncode
                cur = ""
                try:
                    with open(os.path.join(scratch, "current%02d" % i)) as f:
                        cur = f.read()
                except OSError:
                    pass
                if rc is not None and rc < 0 and cur.strip() not in ("", "{}"):
                    # the interpreter itself died (e.g. SIGSEGV from unbounded C-level recursion) while running this case
                    crashed[i] = (rc, cur)
                    continue
                with open(os.path.join(scratch, "log%02d" % i)) as f:
                    tail = f.read()[-3000:]
                harness_errors.append("shard %d died without a result (rc=%s)\n%s" % (i, rc, tail))
                continue
            with open(path) as f:
                r = json.load(f)
            if r.get("status") != "ok":
                harness_errors.append("shard %d: %s" % (i, r.get("error")))
                continue
            evaluations += r["evaluations"]
            bulk += r["bulk_nontrivial"]
            nontrivial.update(r["nontrivial"])
            excluded += r["excluded"]
            exhaustive += r["exhaustive"]
            inconclusive += r["inconclusive"]
            for l, c in r["labels"].items():
                labels[l] = labels.get(l, 0) + c
            for l, s in r["samples"].items():
                cur = samples.setdefault(l, [])
                if len(cur) < 2:
                    cur.extend(s[: 2 - len(cur)])
            for k, v in r["notes"].items():
                if isinstance(v, (int, float)) and isinstance(notes.get(k, 0), (int, float)):
                    notes[k] = notes.get(k, 0) + v
                else:
                    notes.setdefault(k, v)
            for b, fl in r["failures"].items():
                cur = failures.get(b)
                if cur is None:
                    failures[b] = fl
                else:
                    cnt = cur["count"] + fl["count"]
                    if fl["size"] < cur["size"]:
                        failures[b] = fl
                    failures[b]["count"] = cnt
        # ---- shards killed by a signal: re-run the announced case alone; dying again is a violation ------
        for i, (rc, case_txt) in sorted(crashed.items())[:3]:
            try:
                case = json.loads(case_txt)
            except ValueError:
                harness_errors.append("shard %d died with signal %d; announced case unreadable" % (i, -rc))
                continue
            cf = os.path.join(scratch, "crash%02d.json" % i)
            with open(cf, "w") as f:
                json.dump(dict(case=case), f)
            try:
                r2 = subprocess.run([sys.executable, "-W", "ignore", "-m", "vf.main", prop, "--replay", cf, "--tier", a.tier,
                                     "--seed", str(seed)], stdout=subprocess.DEVNULL, stderr=subprocess.DEVNULL, timeout=2 * stall_s)
                rc2 = r2.returncode
            except subprocess.TimeoutExpired:
                rc2 = None
            if rc2 is not None and rc2 < 0:
                failures.setdefault("crash:interpreter-killed-by-signal-%d" % -rc2, dict(
                    case=case, detail="the worker died with signal %d on this case, and again when it was re-run alone" % -rc,
                    size=len(case_txt), count=0))["count"] += 1
            else:
                inconclusive.append("shard %d died with signal %d on a case that did not kill the interpreter when re-run alone" % (i, -rc))
        # ---- stalled cases: confirm alone (in parallel, at most 4 distinct cases) ------------
        confirm = []
        seen_cases = set()
        for i, case_txt in sorted(stalled.items()):
            if not case_txt:
                harness_errors.append("shard %d stalled before announcing a case" % i)
                continue
            try:
                case = json.loads(case_txt)
            except ValueError:
                harness_errors.append("shard %d stalled; announced case unreadable" % i)
                continue
            if case_txt in seen_cases or len(confirm) >= 4:
                inconclusive.append("shard %d stalled; its case was not re-run (others are being confirmed)" % i)
                continue
            seen_cases.add(case_txt)
            cf = os.path.join(scratch, "stall%02d.json" % i)
            with open(cf, "w") as f:
                json.dump(dict(case=case), f)
            p = subprocess.Popen([sys.executable, "-W", "ignore", "-m", "vf.main", prop, "--replay", cf,
                                  "--tier", a.tier, "--seed", str(seed)], stdout=subprocess.DEVNULL,
                                 stderr=subprocess.DEVNULL, start_new_session=True)
            procs.append(p)
            confirm.append((i, case, case_txt, p))
        deadline = time.time() + 2 * stall_s
        for i, case, case_txt, p in confirm:
            try:
                p.wait(timeout=max(1, deadline - time.time()))
                inconclusive.append("shard %d stalled once on a case that finished when re-run alone" % i)
            except subprocess.TimeoutExpired:
                try:
                    os.killpg(p.pid, signal.SIGKILL)
                except Exception:
                    pass
                failures.setdefault("hang:stall-confirmed", dict(
                    case=case, detail="case ran > %ds in the shard and > %ds alone" % (stall_s, 2 * stall_s),
                    size=len(case_txt), count=0))["count"] += 1
        wall = time.time() - t0
        if harness_errors:
            seen_err = set()
            for e in harness_errors:
                key = e.split(":", 1)[-1][:400]
                if key in seen_err:
                    continue
                seen_err.add(key)
                print("HARNESS-ERROR property=%s %s" % (prop, e[:3000]))
            print("HARNESS-ERROR property=%s %d shard(s) failed" % (prop, len(harness_errors)))
            return 2
        nviol, known_hit = report_failures(prop, seed, failures)
        # ---- floors ---------------------------------------------------------------
        floor_errors = []
        for label, (frac, denom_label) in meta.get("floors", {}).items():
            denom = labels.get(denom_label, 0) if denom_label else evaluations - labels.get("atheris-cases", 0)
            got = labels.get(label, 0)
            if denom and got < frac * denom:
                floor_errors.append("label %r: %d of %d (< %.0f%%)" % (label, got, denom, frac * 100))
        distinct = len(nontrivial) + bulk
        flat_samples = []
        seen = set()
        for l in sorted(samples, key=lambda l: (l == "trivial", l != "*", l)):
            for s in samples[l]:
                k = jdump(s)
                if k not in seen and len(flat_samples) < 12:
                    seen.add(k)
                    flat_samples.append(s)
        cov = dict(
            evaluations=evaluations,
            distinct_nontrivial=distinct,
            rule=meta["rule"],
            samples=flat_samples,
            labels=dict(sorted(labels.items(), key=lambda kv: -kv[1])[:220]),
            excluded_by_known_findings=excluded,
            known_findings_hit={k: v[1] for k, v in known_hit.items()},
            shards=nshards,
            notes=notes,
        )
        if exhaustive:
            cov["exhaustive_subspaces"] = sorted(set(exhaustive))
            if meta.get("exhaustive_whole"):
                cov["exhaustive"] = True
        if inconclusive:
            cov["inconclusive"] = inconclusive
        write_evidence(prop, meta, a.tier, seed, cov, wall, nviol)
        print("%s %s seed=%d: %d cases, %d distinct non-trivial, %d violation bucket(s), %.1fs" % (
            prop, a.tier, seed, evaluations, distinct, nviol, wall))
        if nviol:
            return 1
        if floor_errors:
            for e in floor_errors:
                print("HARNESS-ERROR property=%s generator floor missed: %s" % (prop, e))
            return 2
        if distinct < 2:
            print("HARNESS-ERROR property=%s fewer than 2 distinct non-trivial cases" % prop)
            return 2
        return 0
    finally:
        cleanup()


if __name__ == "__main__":
    sys.exit(main())
