"""In-memory wiki database offering the read interface the real nuwiki.Adapt offers to the parser, expander and
writers (normalize_and_get_page through a real NsHandler, get_siteinfo, nshandler, get_url, get_source, image
lookups, select).  The repository's own test helpers (DictDB, DummyDB) lack parts of it, which makes [[x]],
{{#ifexist:}}, <gallery> or <pages> raise AttributeError - an artefact of the helpers, not of mwlib."""
import copy
import urllib.parse

_si = {}


def siteinfo(lang):
    if lang not in _si:
        from mwlib.network.siteinfo import get_siteinfo

        _si[lang] = get_siteinfo(lang)
    return _si[lang]


class Page:
    expanded = 0

    def __init__(self, title, ns, rawtext, revid=None):
        self.title, self.ns, self.rawtext, self.revid = title, ns, rawtext, revid


class WikiDB:
    def __init__(self, pages=None, lang="en", templates=None):
        """pages: {full title: text}; templates: {name without namespace: text}"""
        from mwlib.core import nshandling

        self.lang = lang
        self.siteinfo = copy.deepcopy(siteinfo(lang))
        self.nshandler = nshandling.NsHandler(self.siteinfo)
        self.en_nshandler = nshandling.get_nshandler_for_lang("en")
        self.nfo = {"base_url": "http://example.org/w/", "script_extension": ".php", "format": "nuwiki"}
        self.redirects = {}
        self.pages = {}
        for name, text in (pages or {}).items():
            self.add(name, text, 0)
        for name, text in (templates or {}).items():
            self.add(name, text, 10)

    def add(self, name, text, defaultns=0):
        ns, partial, full = self.nshandler.splitname(name, defaultns)
        self.pages[full] = Page(full, ns, text, revid=len(self.pages) + 1)

    # ---- the interface of nuwiki.Adapt / NuWiki ----------------------------------
    def get_siteinfo(self):
        return self.siteinfo

    def get_page(self, name, revision=None):
        name = self.redirects.get(name, name)
        return self.pages.get(name)

    def normalize_and_get_page(self, name, defaultns):
        return self.get_page(self.nshandler.get_fqname(name, defaultns=defaultns))

    def normalize_and_get_image_path(self, name):
        return None

    def get_disk_path(self, name, size=None):
        return None

    def get_url(self, name, revision=None, defaultns=0):
        base = "http://example.org/w/index.php?"
        if revision is not None:
            return base + "oldid=%s" % revision
        fq = self.nshandler.get_fqname(name, defaultns=defaultns)
        return base + "title=%s" % urllib.parse.quote(fq.replace(" ", "_").encode("utf-8"), safe=":/@")

    def get_description_url(self, name):
        return self.get_url(name, defaultns=6)

    def get_authors(self, title, revision=None):
        return None

    def get_source(self, title, revision=None):
        from mwlib.core import metabook

        g = self.siteinfo["general"]
        return metabook.Source(name="%s (%s)" % (g["sitename"], g["lang"]), url=g["base"], language=g["lang"],
                               base_url=self.nfo["base_url"], script_extension=self.nfo["script_extension"])

    def get_image_templates(self, name, wikidb=None):
        return []

    def get_image_templates_and_args(self, name, wikidb=None):
        return {}

    def get_image_description_page(self, name):
        return None

    def get_contributors(self, name, wikidb=None):
        return []

    def get_licenses(self):
        return []

    def get_data(self, name):
        return None

    def articles(self):
        return sorted(p.title for p in self.pages.values() if p.ns == 0)

    def select(self, start, end):
        return sorted(p.title for p in self.pages.values() if start <= p.title <= end)

    def clear(self):
        pass
