"""A synthetic MediaWiki served through a subclass of the real API client (C11).

Only the HTTP layer (MwApi._fetch) is replaced: URL building, batching, continuation handling and result merging
are the real code.  The model is pure data; the expected archive content (closure) is computed from it here,
never from the fetcher."""
import json
import re
from urllib import parse

import gevent

FILE_RX = re.compile(r"\[\[(?:File|Image):([^\]|]+)")
CALL_RX = re.compile(r"\{\{(:?)([^{}|]+)\}\}")


class Model:
    """pages: {full title: dict(ns, id, revs=[(revid, text)], redirect=target|None, contrib=([names], anon))}
    commons: {image title: dict(text, contrib)} description pages living on the second wiki"""

    def __init__(self, data):
        self.pages = data["pages"]
        self.commons = data.get("commons", {})
        self.lang = data.get("lang", "en")

    def page(self, title):
        return self.pages.get(title)

    def text_of(self, title, revid=None):
        p = self.pages.get(title)
        if p is None:
            return None
        if revid is None:
            return p["revs"][-1][1]
        for r, t in p["revs"]:
            if r == revid:
                return t
        return None

    def rev(self, revid):
        for t, p in self.pages.items():
            for r, txt in p["revs"]:
                if r == revid:
                    return t, p, txt
        return None

    def expand(self, text, depth=0):
        if depth > 20:
            return ""

        def rep(m):
            name = m.group(2).strip()
            if not m.group(1) and name not in self.pages:
                name = "Template:" + name
            p = self.pages.get(name)
            if p is None:
                return "[[:%s]]" % name if m.group(1) else "[[:%s]]" % name
            if p.get("redirect"):
                q = self.pages.get(p["redirect"])
                if q is None or q.get("redirect"):
                    return p["revs"][-1][1]
                p = q
            return self.expand(p["revs"][-1][1], depth + 1)

        return CALL_RX.sub(rep, text)

    def images_in(self, expanded_text):
        out = []
        for name in FILE_RX.findall(expanded_text):
            t = "File:" + name.strip().replace("_", " ")
            t = t[:5] + t[5:6].upper() + t[6:]
            if t not in out:
                out.append(t)
        return out

    def used_templates(self, text, seen=None):
        seen = seen if seen is not None else []
        for colon, name in CALL_RX.findall(text):
            name = name.strip()
            if not colon and name not in self.pages:
                name = "Template:" + name
            if name in self.pages and name not in seen:
                seen.append(name)
                self.used_templates(self.pages[name]["revs"][-1][1], seen)
        return seen


def image_bytes(title):
    return ("IMG:" + title).encode("utf-8") * 7


class Log:
    def __init__(self):
        self.requests = []


def make_api_class(base, model, siteinfos, log, latency, limits):
    """SynthApi: the real MwApi with _fetch answered from the model"""

    class SynthApi(base):
        def __init__(self, apiurl, *a, **kw):
            kw.pop("use_http2", None)
            base.__init__(self, apiurl, *a, **kw)  # limits come from mwlib.utils.conf, as in production

        def _fetch(self, url, method="GET", data=None, **kw):
            if method == "POST":
                q0 = dict(parse.parse_qsl(data.decode("utf-8"), keep_blank_values=True))
            else:
                q0 = dict(parse.parse_qsl(parse.urlparse(url).query, keep_blank_values=True))
            kind = q0.get("meta") or (q0.get("prop") or "").split("|")[0] or q0.get("action")
            if q0.get("action") == "parse" and model.page(q0.get("page", "")) is None:
                kind = "error"
            # latency = yields of the event loop: a per-request script plus a per-kind base (so that e.g. every
            # siteinfo answer is slower than every imageinfo answer, or error answers come last)
            # (every request yields at least once: an answer is never available in the same scheduling quantum)
            n = 1 + (latency.pop(0) if latency else 0) + limits.get("kind_latency", {}).get(kind, 0)
            for _ in range(n):
                gevent.sleep(0)
            if method == "POST":
                q = dict(parse.parse_qsl(data.decode("utf-8"), keep_blank_values=True))
            else:
                q = dict(parse.parse_qsl(parse.urlparse(url).query, keep_blank_values=True))
            host = parse.urlparse(self.apiurl).netloc
            log.requests.append(dict(q, _host=host))
            return json.dumps(answer(model, siteinfos, host, q, limits)).encode("utf-8")

    return SynthApi


def _cont_slice(entries, token, limit):
    """entries: sorted list of (pageid, value); token 'pageid|value' = first entry still to send"""
    if token:
        pid, val = token.split("|", 1)
        key = (int(pid), val)
        entries = [e for e in entries if (e[0], e[1]) >= key]
    more = entries[limit:]
    return entries[:limit], ("%d|%s" % (more[0][0], more[0][1]) if more else None)


def answer(model, siteinfos, host, q, limits):
    a = q["action"]
    commons = host.startswith("commons")
    si = siteinfos["commons" if commons else "local"]
    if a == "query" and q.get("meta") == "siteinfo":
        return {"query": {k: si[k] for k in q["siprop"].split("|") if k in si}}
    if a == "expandtemplates":
        return {"expandtemplates": {"wikitext": model.expand(q["text"])}}
    if a == "parse":
        page = q.get("page")
        if page is not None and model.page(page) is None:
            # as MediaWiki does for a page that does not exist
            return {"error": {"code": "missingtitle", "info": "The page you specified doesn't exist."}}
        return {"parse": {"text": {"*": "<div>x</div>"}, "title": q.get("page", "")}}
    if a != "query":
        return {"error": {"info": "unhandled action %r" % a}}
    pages = {}
    redirects = []
    normalized = []
    titles = [t for t in q.get("titles", "").split("|") if t]
    revids = [int(r) for r in q.get("revids", "").split("|") if r]
    sel = []
    neg = 0
    for t in titles:
        if commons:
            d = model.commons.get(t)
            if d is None:
                neg -= 1
                pages[str(neg)] = {"title": t, "ns": 6, "missing": ""}
            else:
                sel.append((t, dict(ns=6, id=d["id"], revs=[(None, d["text"])], contrib=d["contrib"]), None))
            continue
        p = model.page(t)
        if p is None:
            neg -= 1
            pages[str(neg)] = {"title": t, "ns": 0, "missing": ""}
            continue
        if p.get("redirect") and "redirects" in q:
            tgt = p["redirect"]
            redirects.append({"from": t, "to": tgt})
            p2 = model.page(tgt)
            if p2 is None:
                neg -= 1
                pages[str(neg)] = {"title": tgt, "ns": 0, "missing": ""}
                continue
            t, p = tgt, p2
        sel.append((t, p, None))
    for r in revids:
        x = model.rev(r)
        if x:
            sel.append((x[0], x[1], r))
        else:
            pages.setdefault("badrevids", None)
            pages.pop("badrevids")
    # one entry per selected page (two redirects to one article select it once)
    uniq, seen_ids = [], set()
    for t, p, rid in sel:
        if (p["id"], rid) not in seen_ids:
            seen_ids.add((p["id"], rid))
            uniq.append((t, p, rid))
    sel = uniq
    props = [x for x in q.get("prop", "").split("|") if x]
    qc = {}
    # list-valued props with continuation
    for prop, limkey, contkey, getter in (
        ("images", "imlimit", "imcontinue", lambda t, p, rid: model.images_in(model.expand(model.text_of(t, rid) if not commons else ""))),
        ("templates", "tllimit", "tlcontinue", lambda t, p, rid: model.used_templates(model.text_of(t, rid) or "") if not commons else []),
        ("contributors", "pclimit", "pccontinue", lambda t, p, rid: p["contrib"][0]),
    ):
        if prop not in props:
            continue
        entries = sorted({(p["id"], v) for t, p, rid in sel for v in getter(t, p, rid)})
        limit = int(q.get(limkey, 10) or 10)
        part, token = _cont_slice(entries, q.get(contkey), limit)
        byid = {}
        for pid, v in part:
            byid.setdefault(pid, []).append(v)
        for t, p, rid in sel:
            e = pages.setdefault(str(p["id"]), {"title": t, "ns": p["ns"], "pageid": p["id"]})
            vals = byid.get(p["id"])
            if vals:
                if prop == "contributors":
                    e["contributors"] = [{"userid": i + 1, "name": n} for i, n in enumerate(vals)]
                else:
                    e[prop] = [{"ns": 6 if prop == "images" else 10, "title": v} for v in vals]
            if prop == "contributors" and not q.get(contkey):
                e["anoncontributors"] = p["contrib"][1]
        if token:
            qc[prop] = {contkey: token}
    for t, p, rid in sel:
        e = pages.setdefault(str(p["id"]), {"title": t, "ns": p["ns"], "pageid": p["id"]})
        if "revisions" in props:
            rv = [x for x in p["revs"] if x[0] == rid] if rid else [p["revs"][-1]]
            for r, txt in rv:
                d = {}
                if r is not None:
                    d["revid"] = r
                if "content" in q.get("rvprop", ""):
                    d["*"] = txt
                    d["user"] = "U"
                    d["timestamp"] = "2020-01-01T00:00:00Z"
                e.setdefault("revisions", []).append(d)
        if "imageinfo" in props and p["ns"] == 6:
            name = t.split(":", 1)[1].replace(" ", "_")
            where = "commons.test" if p.get("on_commons") else "wiki.test"
            e["imageinfo"] = [{"url": "http://%s/images/%s" % (where, name), "thumburl": "http://%s/thumb/%s" % (where, name),
                               "descriptionurl": "http://%s/wiki/File:%s" % (where, name), "size": 10, "sha1": "0" * 40}]
            e["fullurl"] = "http://wiki.test/wiki/" + t.replace(" ", "_")
        if "categories" in props:
            pass
    res = {"query": {"pages": pages}}
    if redirects:
        res["query"]["redirects"] = redirects
    if qc:
        res["query-continue"] = qc
    return res
