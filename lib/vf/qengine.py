"""Owned-schedule engine for the qs job queue (C16-C19).

The real qs.jobs.workq sits behind real qs.qserve.QPlugin instances (one per simulated connection) in this
process.  The harness owns every source of non-determinism: qs.jobs.time is a fake clock, qs.jobs.random.choice
draws from the test case, and every blocking request runs in its connection's greenlet, which only advances when
the history says "run".  gevent is cooperative, so the steps between yields are atomic: a history IS a schedule.

The reference model is *observational*: it records what the property's statement defines (accepted jobs, their
order, first outcome, deadlines) and what was observed (which connection received which job); it never predicts
which blocked worker a job is handed to.  See DESIGN.md C16-C18.
"""
import os
import pickle

import gevent
import gevent.queue


class FakeTime:
    def __init__(self, t=1000.0):
        self.t = t

    def time(self):
        return self.t

    def __getattr__(self, name):
        import time

        return getattr(time, name)


class Chooser:
    def __init__(self):
        self.picks = []
        self.calls = 0

    def choice(self, alts):
        self.calls += 1
        i = self.picks.pop(0) % len(alts) if self.picks else 0
        return alts[i]

    def __getattr__(self, name):
        import random

        return getattr(random, name)


class Conn:
    """One client connection: requests are handled one at a time by one greenlet, as rpcserver.handle_client does;
    when the connection goes away the handler's `finally` calls shutdown()."""

    def __init__(self, eng, name):
        self.eng = eng
        self.name = name
        self.plugin = eng.P()
        self.inbox = gevent.queue.Queue()
        self.pending = 0
        self.closed = False
        self.stale = False  # belongs to a queue object that was replaced by a restart
        self.do_shutdown = True
        self.blocked = None  # description of the blocking request being served
        self.started = False
        self.g = gevent.spawn(self._loop)

    def _loop(self):
        self.started = True
        try:
            while True:
                fn = self.inbox.get()
                try:
                    fn()
                except gevent.GreenletExit:
                    raise
                except Exception as e:  # the rpc server answers {"error": ...} and keeps the connection
                    self.eng.event("request-error", conn=self, error=repr(e))
                finally:
                    self.pending -= 1
                    self.blocked = None
        except gevent.GreenletExit:
            pass
        finally:
            self.closed = True
            if self.do_shutdown and not self.stale:
                self.plugin.shutdown()
                self.eng.event("closed", conn=self)

    def submit(self, what, fn):
        self.pending += 1
        self.blocked = what
        self.inbox.put(fn)

    @property
    def idle(self):
        return self.pending == 0 and not self.closed


class Engine:
    SETTLE = 8

    def __init__(self, workers=(1, 2, 3), clients=(1, 2)):
        from qs import jobs, qserve

        self.jobs, self.qserve = jobs, qserve
        self.clock = FakeTime()
        self.chooser = Chooser()
        jobs.time = self.clock
        jobs.random = self.chooser
        self.db = qserve.db()
        try:
            os.remove(os.path.join(_data_dir(), "workq.pickle"))  # a new server in an empty data directory
        except OSError:
            pass
        self.events = []
        self.worker_names, self.client_names = workers, clients
        self.all_conns = []
        self._bind()

    @property
    def wq(self):
        return self.db.workq

    def _bind(self):
        wq = self.db.workq

        from qs import rpcserver

        db_ = self.db

        class P(rpcserver.RequestHandler, self.qserve.QPlugin):
            """the request handler class exactly as qserve.Main.run composes it (rpcserver.RequestHandler first: its
            shutdown() must reach QPlugin.shutdown() through the MRO)"""

            def __init__(self, **kwargs):
                super(P, self).__init__(**kwargs)

            workq = wq
            db = db_

        self._nconn = getattr(self, "_nconn", 0)

        def make():
            self._nconn += 1
            return P(client=(None, ("127.0.0.1", 40000 + self._nconn)), clientid="<%d 127.0.0.1:%d>" % (self._nconn, 40000 + self._nconn))

        self.P = make
        self.admin = make()  # connection used for add/kill/info: never blocks, never holds jobs
        self.workers = {w: self._conn("w%d" % w) for w in self.worker_names}
        self.clients = {c: self._conn("c%d" % c) for c in self.client_names}
        self.settle()

    def _conn(self, name):
        c = Conn(self, name)
        self.all_conns.append(c)
        return c

    def event(self, kind, **kw):
        if kw.get("conn") is not None and kw["conn"].stale:
            return
        self.events.append(dict(kind=kind, **kw))

    def take_events(self):
        ev, self.events = self.events, []
        return ev

    def settle(self):
        for _ in range(self.SETTLE):
            gevent.sleep(0)

    # ---- requests ------------------------------------------------------------------
    def add(self, channel, priority=0, jobid=None, timeout=None, picks=()):
        self.chooser.picks = list(picks)
        return self.admin.rpc_qadd(channel, payload={"p": 1}, priority=priority, jobid=jobid, timeout=timeout)

    def start_pull(self, w, channels):
        conn = self.workers[w]
        if not conn.idle:
            return False
        channels = list(channels)

        def fn():
            snap = conn.plugin(("qpull", {"channels": channels}))  # through Dispatcher.__call__, as the server does
            self.event("pulled", conn=conn, channels=channels, job=dict(snap))

        conn.submit(("pull", channels), fn)
        return True

    def start_wait(self, c, jobids):
        conn = self.clients[c]
        if not conn.idle:
            return False
        jobids = list(jobids)

        def fn():
            snaps = conn.plugin(("qwait", {"jobids": jobids}))
            self.event("waited", conn=conn, jobids=jobids, jobs=[dict(s) for s in snaps])

        conn.submit(("wait", jobids), fn)
        return True

    def finish(self, w, jobid, result=None, error=None):
        return self.workers[w].plugin.rpc_qfinish(jobid, result=result, error=error)

    def kill(self, jobid):
        self.admin.rpc_qkill([jobid])

    def setinfo(self, w, jobid, info):
        (self.workers[w].plugin if w else self.admin).rpc_qsetinfo(jobid, info)

    def advance(self, seconds, handle=True):
        self.clock.t += seconds
        if handle:
            self.wq.handletimeouts()

    def dropdead(self):
        self.wq.dropdead()

    def info(self, jobid):
        return self.admin.rpc_qinfo(jobid)

    def stats(self):
        return self.admin.rpc_getstats()

    def disconnect(self, w, picks=()):
        """Returns 'now' when the connection was idle (its shutdown ran atomically here) or 'deferred' when its
        handler is inside a blocking request (the GreenletExit is delivered when the event loop runs)."""
        conn = self.workers[w]
        self.chooser.picks = list(picks)
        if conn.idle or not conn.started:
            # (a handler greenlet that never got to run is cancelled by the kill and never unwinds: nothing was served)
            conn.do_shutdown = False
            conn.g.kill(block=False)
            conn.closed = True
            conn.plugin.shutdown()
            mode = "now"
        else:
            conn.g.kill(block=False)
            mode = "deferred"
        self.workers[w] = self._conn("w%d" % w)
        return mode, conn

    def restart(self):
        """qserve.Main.savedb()/loaddb(): pickle the db, drop every connection, start from the pickle."""
        # through the real save/load path: Main.savedb() writes <data_dir>/workq.pickle, a new Main's loaddb() reads it
        Main = self.qserve.Main
        old = object.__new__(Main)
        old.data_dir = _data_dir()
        old.qpath = os.path.join(old.data_dir, "workq.pickle")
        old.db = self.db
        old.savedb()
        for c in self.all_conns:
            c.stale = True
            c.do_shutdown = False
            if not c.closed:
                c.g.kill(block=False)
        self.settle()
        self.events = []
        new = object.__new__(Main)
        new.data_dir = old.data_dir
        new.loaddb()
        self.db = new.db
        self.all_conns = []
        self._bind()

    def close(self):
        for c in self.all_conns:
            c.stale = True
            c.do_shutdown = False
            if not c.closed:
                c.g.kill(block=False)
        self.settle()


_DATA_DIR = []


def _data_dir():
    """one scratch data directory per process (removed with the run's work directory); the state file of an earlier
    history is removed when an Engine is created"""
    if not _DATA_DIR:
        import tempfile

        _DATA_DIR.append(tempfile.mkdtemp(prefix="qs-data-"))
    return _DATA_DIR[0]


# =======================================================================================
class Violation(Exception):
    def __init__(self, bucket, detail):
        Exception.__init__(self, bucket + ": " + detail)
        self.bucket, self.detail = bucket, detail


def eligible(channels, ch):
    return not channels or ch in channels


class MJob:
    def __init__(self, jobid, serial, channel, prio, deadline, gen):
        self.jobid, self.serial, self.channel, self.prio, self.deadline, self.gen = jobid, serial, channel, prio, deadline, gen
        self.done = False
        self.result = None
        self.error = None
        self.holder = None  # Conn that received it and neither finished nor lost it
        self.deliveries = 0
        self.requeues = 0  # holder disconnects / restarts while held
        self.drop_at = None
        self.ttl = 3600
        self.info = {}

    def key(self):
        return (self.prio, self.serial)


class Checker:
    """Applies a history (list of JSON-able steps) to the real queue and to the observational model, checking the
    oracles selected by `props` (subset of {'C16','C17','C18'}) after every step."""

    def __init__(self, props=("C16", "C17", "C18"), workers=(1, 2, 3)):
        self.props = set(props)
        self.eng = Engine(workers=workers)
        self.jobs = {}  # jobid -> MJob (current generation)
        self.order = []  # accepted job ids in acceptance order (with repeats for new generations)
        self.count = 0
        self.finished = {}  # channel -> count of finish events since last restart
        self.pulls = {}  # Conn -> dict(channels, blocked: bool) for pulls in progress
        self.waits = {}  # Conn -> jobids
        self.labels = set()
        self.pushes_since_run = 0
        self.blocked_at_last_run = 0
        self.step_no = 0
        self.autoids = set()

    # ---- helpers -------------------------------------------------------------------
    def V(self, prop, what, detail):
        if prop in self.props:
            raise Violation("%s:%s" % (prop, what), "step %d: %s" % (self.step_no, detail))

    def nth_job(self, idx):
        ids = list(dict.fromkeys(self.order))
        return ids[idx % len(ids)] if ids else None

    def registered_blocked(self):
        return [(c, p) for c, p in self.pulls.items() if p["blocked"] and not c.closed]

    def _mark_done(self, mj, result=None, error=None):
        if mj.done:
            return False
        mj.done, mj.result, mj.error = True, result, error
        self.finished[mj.channel] = self.finished.get(mj.channel, 0) + 1
        return True

    def _note_push(self, ch):
        if any(eligible(p["channels"], ch) for _, p in self.registered_blocked()):
            self.labels.add("push-while-puller-blocked")
            self.pushes_since_run += 1
            if self.pushes_since_run >= 2:
                self.labels.add("two-pushes-in-one-quantum")

    # ---- steps ---------------------------------------------------------------------
    def step(self, s):
        self.step_no += 1
        op = s[0]
        getattr(self, "op_" + op)(*s[1:])
        self.check_sync()

    def op_add(self, ch, prio, slot, timeout, picks=()):
        eng = self.eng
        jobid = None if slot is None else (slot if isinstance(slot, str) else "j%d" % slot)
        existed = jobid in self.jobs and self.jobs[jobid].error != "killed" and not self.dropped(jobid)
        before = self.real_numjobs()
        try:
            got = eng.add(ch, prio, jobid, timeout, picks)
        except Exception as e:
            return self.V("C16", "add-raised", "add(%r,%r,%r) raised %r" % (ch, prio, jobid, e))
        if existed:
            self.labels.add("re-add")
            if got != jobid:
                self.V("C17", "re-add-returned-other-id", "add of existing id %r returned %r" % (jobid, got))
            if before is not None and self.real_numjobs() != before:
                self.V("C17", "re-add-created-second-job", "add of existing id %r changed the number of jobs %r -> %r" % (
                    jobid, before, self.real_numjobs()))
            return
        if jobid is not None and jobid in self.jobs:
            self.labels.add("re-add-after-kill")
        self.count += 1
        if jobid is None:
            if got in self.jobs or got in self.autoids:
                self.V("C18", "job-id-reused", "new job got id %r which is already in use" % (got,))
            self.autoids.add(got)
            jobid = got
        elif got != jobid:
            self.V("C16", "add-returned-other-id", "add(jobid=%r) returned %r" % (jobid, got))
        gen = self.jobs[jobid].gen + 1 if jobid in self.jobs else 0
        self.jobs[jobid] = MJob(jobid, self.count, ch, prio, self.eng.clock.t + (120.0 if timeout is None else timeout), gen)
        self.order.append(jobid)
        self._note_push(ch)

    def op_pull(self, w, channels):
        conn = self.eng.workers[w]
        if self.eng.start_pull(w, channels):
            self.pulls[conn] = dict(channels=list(channels), blocked=False, fresh=True)

    def op_wait(self, c, idxs):
        ids = [self.nth_job(i) for i in idxs]
        ids = [i for i in ids if i is not None and not self.dropped(i)]
        if not ids:
            return
        conn = self.eng.clients[c]
        if self.eng.start_wait(c, ids):
            # a wait is bound to the job objects that carry these ids when the request is served, i.e. at the next
            # run (a killed id that is added again is a new job)
            self.waits[conn] = list(ids)
            self.labels.add("wait")

    def op_waitslots(self, c, slots):
        """wait for jobs by the explicit ids of their slots (see op_add), whatever their position in the history"""
        ids = [i for i in ("j%d" % s for s in slots) if i in self.jobs and not self.dropped(i)]
        if not ids:
            return
        conn = self.eng.clients[c]
        if self.eng.start_wait(c, ids):
            self.waits[conn] = list(ids)
            self.labels.add("wait")

    def op_finish(self, w, k, kind):
        conn = self.eng.workers[w]
        if not conn.idle:
            return
        held = [mj for mj in self.jobs.values() if mj.holder is conn]
        if kind == "late":
            held = [mj for mj in self.jobs.values() if conn in getattr(mj, "ever_held", ()) and mj.done]
        if not held:
            return
        held.sort(key=lambda m: m.serial)
        mj = held[k % len(held)]
        result, error = ({"r": self.step_no}, None) if kind != "err" else (None, "boom%d" % self.step_no)
        if self.dropped(mj.jobid):
            try:
                self.eng.finish(w, mj.jobid, result, error)
            except Exception:
                pass
            return
        try:
            self.eng.finish(w, mj.jobid, result, error)
        except Exception as e:
            return self.V("C17", "finish-raised", "finish(%r) raised %r" % (mj.jobid, e))
        if mj.done:
            self.labels.add("late-report")
        if self._mark_done(mj, result, error):
            mj.ttl = min(10, mj.ttl) if error else mj.ttl
        if mj.holder is conn:
            mj.holder = None

    def op_finishr(self, w, k, result, error):
        """finish with an explicit result dict / error string (C19)"""
        conn = self.eng.workers[w]
        if not conn.idle:
            return
        held = sorted([mj for mj in self.jobs.values() if mj.holder is conn], key=lambda m: m.serial)
        if not held:
            return
        mj = held[k % len(held)]
        if self.dropped(mj.jobid):
            return
        self.eng.finish(w, mj.jobid, result, error)
        if self._mark_done(mj, result, error):
            mj.ttl = min(10, mj.ttl) if error else mj.ttl
        mj.holder = None

    def op_setinfo(self, jobid, info):
        mj = self.jobs.get(jobid)
        if mj is None or self.dropped(jobid):
            return
        self.eng.setinfo(None, jobid, info)
        mj.info.update(info)
        self.labels.add("info-update")

    def op_setinfok(self, k, info):
        ids = list(dict.fromkeys(self.order))
        if ids:
            self.op_setinfo(ids[k % len(ids)], dict(info))

    def op_killid_str(self, jobid):
        if jobid in self.jobs:
            ids = list(dict.fromkeys(self.order))
            self.op_kill(ids.index(jobid))

    def op_kill(self, idx):
        jid = self.nth_job(idx)
        if jid is None:
            return
        self.eng.kill(jid)
        mj = self.jobs[jid]
        if not self.dropped(jid) and self._mark_done(mj, None, "killed"):
            self.labels.add("kill")
            if mj.holder is not None:
                self.labels.add("kill-while-held")

    def op_killid(self, slot):
        jid = "j%d" % slot
        if jid in self.jobs:
            ids = list(dict.fromkeys(self.order))
            self.op_kill(ids.index(jid))

    def op_advance(self, seconds):
        self.eng.advance(seconds)
        now = self.eng.clock.t
        for mj in self.jobs.values():
            if not mj.done and mj.deadline <= now and not self.dropped(mj.jobid):
                self._mark_done(mj, None, "timeout")
                self.labels.add("timeout")
                if mj.holder is not None:
                    self.labels.add("timeout-while-held")

    def op_dropdead(self):
        self.eng.dropdead()
        now = int(self.eng.clock.t)
        for mj in self.jobs.values():
            if mj.drop_at == "dropped":
                continue
            if mj.drop_at is not None and mj.drop_at < now:
                mj.drop_at = "dropped"
                self.labels.add("dropped-after-ttl")
            elif mj.done and mj.drop_at is None:
                mj.drop_at = now + mj.ttl

    def dropped(self, jid):
        return self.jobs[jid].drop_at == "dropped"

    def op_disconnect(self, w, picks=()):
        mode, conn = self.eng.disconnect(w, picks)
        if mode == "now":
            self._conn_closed(conn)
        else:
            self.labels.add("disconnect-while-blocked")

    def _conn_closed(self, conn):
        for mj in self.jobs.values():
            if mj.holder is conn:
                mj.holder = None
                if not mj.done:
                    mj.requeues += 1
                    self.labels.add("holder-disconnect")
                    self._note_push(mj.channel)
                else:
                    self.labels.add("holder-of-done-job-disconnects")
        self.pulls.pop(conn, None)
        self.waits.pop(conn, None)

    def op_restart(self):
        held = [mj for mj in self.jobs.values() if mj.holder is not None and not mj.done]
        done = [mj for mj in self.jobs.values() if mj.done]
        if held and done:
            self.labels.add("restart-with-held-and-done")
        self.labels.add("restart")
        self.eng.restart()
        for mj in self.jobs.values():
            if mj.holder is not None:
                mj.holder = None
                if not mj.done:
                    mj.requeues += 1
        for jid in [j for j, m in self.jobs.items() if m.drop_at == "dropped"]:
            pass
        self.pulls.clear()
        self.waits.clear()
        self.finished = {}
        self.restarted = True

    def op_run(self):
        eng = self.eng
        blocked_before = self.registered_blocked()
        for conn, waited in self.waits.items():
            self.waits[conn] = [self.jobs[w] if not isinstance(w, MJob) else w for w in waited]
        eng.settle()
        self.process_events(blocked_before)
        self.pushes_since_run = 0
        self.check_quiescent()

    # ---- event processing ---------------------------------------------------------
    def process_events(self, blocked_before):
        someone_was_blocked = bool(blocked_before)
        requeue_in_this_run = False
        for ev in self.eng.take_events():
            conn = ev["conn"]
            if ev["kind"] == "closed" and any(mj.holder is conn and not mj.done for mj in self.jobs.values()):
                # a connection that went away inside this run pushes its jobs back one by one; a puller that blocked earlier in
                # the same run is served by the first of these pushes, whatever the others' priorities: order not decidable
                requeue_in_this_run = True
            if ev["kind"] == "pulled":
                p = self.pulls.pop(conn, None)
                snap = ev["job"]
                jid = snap.get("jobid")
                mj = self.jobs.get(jid)
                chans = ev["channels"]
                if mj is None or self.dropped(jid):
                    self.V("C16", "unknown-job-delivered", "worker %s received %r which was never accepted" % (conn.name, snap))
                    continue
                if mj.done or snap.get("done"):
                    self.V("C17", "finished-job-delivered", "worker %s received job %r which is finished (error=%r)" % (
                        conn.name, jid, mj.error or snap.get("error")))
                    continue
                if not eligible(chans, mj.channel):
                    self.V("C17", "wrong-channel", "worker %s asked for %r and received %r of channel %r" % (conn.name, chans, jid, mj.channel))
                if mj.holder is not None:
                    self.V("C16", "job-handed-to-two-workers", "job %r handed to %s while %s still holds it" % (jid, conn.name, mj.holder.name))
                if mj.deliveries + 1 > 1 + mj.requeues:
                    self.V("C16", "handed-out-more-than-once-per-enqueueing", "job %r delivered %d times, re-enqueued %d times" % (
                        jid, mj.deliveries + 1, mj.requeues))
                # ordering: only decidable without prediction when nobody was blocked when this run started
                if p is not None and p.get("fresh") and not someone_was_blocked and not requeue_in_this_run:
                    cands = [m for m in self.jobs.values() if not m.done and m.holder is None and not self.dropped(m.jobid)
                             and eligible(chans, m.channel)]
                    if cands:
                        best = min(cands, key=MJob.key)
                        if len(cands) >= 2:
                            self.labels.add("ordering-checked-on-2+-candidates")
                            if len({m.prio for m in cands}) >= 2:
                                self.labels.add("ordering-checked-across-priorities")
                        if best is not mj:
                            self.V("C17", "not-lowest-priority-oldest-first", "worker %s asked for %r and received %r (prio %r, serial %r) although %r (prio %r, serial %r) was queued" % (
                                conn.name, chans, jid, mj.prio, mj.serial, best.jobid, best.prio, best.serial))
                mj.holder = conn
                mj.deliveries += 1
                mj.ever_held = getattr(mj, "ever_held", ()) + (conn,)
                self.labels.add("delivery")
                if p is not None and p["blocked"]:
                    self.labels.add("delivery-to-blocked-puller")
            elif ev["kind"] == "waited":
                waited = self.waits.pop(conn, None) or []
                for snap, mj in zip(ev["jobs"], waited):
                    if mj.jobid != snap.get("jobid"):
                        self.V("C17", "waiter-got-other-job", "client %s waited for %r and got %r" % (conn.name, mj.jobid, snap.get("jobid")))
                        continue
                    if not mj.done:
                        self.V("C17", "waiter-released-early", "client %s was released although job %r is not finished" % (conn.name, mj.jobid))
                    elif snap.get("error") != mj.error or snap.get("result") != mj.result or not snap.get("done"):
                        self.V("C17", "waiter-saw-other-outcome", "client %s saw %r, first outcome was result=%r error=%r" % (conn.name, snap, mj.result, mj.error))
                self.labels.add("wait-released")
            elif ev["kind"] == "closed":
                self._conn_closed(conn)
            elif ev["kind"] == "request-error":
                self.pulls.pop(conn, None)
                waited = self.waits.pop(conn, None) or []
                if any(self.dropped(w.jobid if isinstance(w, MJob) else w) for w in waited) and "KeyError" in ev["error"]:
                    # a wait that is served after its (finished) job was dropped by the watchdog: the id is unknown by then and
                    # the server answers with an error - nothing the properties forbid
                    self.labels.add("wait-on-dropped-job-answered-with-error")
                    continue
                self.V("C16", "request-raised", "%s: %s" % (conn.name, ev["error"]))
        for conn, p in self.pulls.items():
            p["blocked"] = True
            p["fresh"] = False

    # ---- oracles ------------------------------------------------------------------
    def real_numjobs(self):
        try:
            return self.eng.stats()["numjobs"]
        except Exception:
            return None

    def check_sync(self):
        """After every step, without yielding to the event loop."""
        eng = self.eng
        for jid, mj in self.jobs.items():
            info = eng.info(jid)
            if self.dropped(jid):
                continue
            if info is None:
                self.V("C16", "accepted-job-vanished", "job %r is no longer known to the queue" % (jid,))
                continue
            if bool(info.get("done")) != mj.done:
                self.V("C17", "done-flag", "job %r: queue says done=%r, history says %r" % (jid, info.get("done"), mj.done))
            elif any((info.get("info") or {}).get(k) != v for k, v in mj.info.items()):
                self.V("C18" if "C18" in self.props else "C17", "info-lost", "job %r: info reported so far %r, queue now reports %r" % (jid, mj.info, info.get("info")))
            elif mj.done and (info.get("error") != mj.error or info.get("result") != mj.result):
                self.V("C17", "outcome-changed", "job %r: first outcome result=%r error=%r, queue now reports result=%r error=%r" % (
                    jid, mj.result, mj.error, info.get("result"), info.get("error")))
        if "C17" in self.props:
            stat = eng.stats().get("channel2stat", {})
            for ch, n in self.finished.items():
                got = sum(stat.get(ch, {}).get(k, 0) for k in ("success", "error", "timeout", "killed"))
                if got != n:
                    self.V("C17", "counters-do-not-add-up", "channel %r: %d jobs finished, counters %r" % (ch, n, stat.get(ch)))

    def queued_jobs(self):
        return [m for m in self.jobs.values() if not m.done and m.holder is None and not self.dropped(m.jobid)]

    def check_quiescent(self):
        """After the event loop ran dry."""
        # a job that nobody holds must not sit around while an eligible puller is blocked
        for conn, p in self.registered_blocked():
            for mj in self.queued_jobs():
                if eligible(p["channels"], mj.channel):
                    self.V("C16", "job-not-delivered-to-blocked-puller", "job %r (channel %r) is accepted, unfinished and held by nobody, yet %s stays blocked pulling %r" % (
                        mj.jobid, mj.channel, conn.name, p["channels"]))
        # waiters are released exactly when their jobs are finished
        for conn, waited in list(self.waits.items()):
            if conn.closed:
                continue
            if all(m.done for m in waited):
                self.V("C17", "waiter-not-released", "client %s still waits for %r although all are finished" % (conn.name, [m.jobid for m in waited]))
        self.check_internal()

    def check_internal(self):
        """Secondary cross-check against the state the property's anchors name; skipped if the layout changed."""
        wq = self.eng.wq
        if not hasattr(wq, "channel2q"):
            return
        inq = {}
        for ch, q in wq.channel2q.items():
            for j in q:
                if not j.done:
                    inq[j.jobid] = inq.get(j.jobid, 0) + 1
        held = {}
        for c in self.eng.all_conns:
            if c.closed or c.stale:
                continue
            for jid, j in getattr(c.plugin, "running_jobs", {}).items():
                if not j.done:
                    held.setdefault(jid, []).append(c.name)
        for mj in self.jobs.values():
            if mj.done or self.dropped(mj.jobid):
                continue
            n = inq.get(mj.jobid, 0) + len(held.get(mj.jobid, []))
            if n != 1:
                self.V("C16", "not-exactly-one-place", "job %r is in %d queue slot(s) and held by %r" % (mj.jobid, inq.get(mj.jobid, 0), held.get(mj.jobid, [])))

    def finish_history(self):
        """run, then drain with fresh pullers: delivered u held u finished == accepted."""
        self.step_no += 1
        self.op_run()
        self.check_sync()
        # free every worker connection that is still blocked, then pull until nothing comes
        eng = self.eng
        for w in list(eng.workers):
            if not eng.workers[w].idle:
                self.op_disconnect(w)
        self.op_run()
        expected = {m.jobid for m in self.queued_jobs()}
        got = set()
        for _ in range(len(expected) + 2):
            w = eng.worker_names[0]
            conn = eng.workers[w]
            if not conn.idle:
                break
            self.op_pull(w, [])
            self.op_run()
            mine = {m.jobid for m in self.jobs.values() if m.holder is conn and not m.done}
            got |= mine
            if conn.idle is False:
                break
        if expected - got:
            self.V("C16", "job-lost", "accepted, unfinished, unheld job(s) %r were never delivered to a puller asking for any channel" % sorted(expected - got, key=str))
        self.check_sync()

    def close(self):
        self.eng.close()


def run_history(steps, props=("C16", "C17", "C18"), workers=(1, 2, 3)):
    """Returns (violation or None, labels)."""
    ck = Checker(props, workers)
    try:
        try:
            for s in steps:
                ck.step(s)
            ck.finish_history()
        except Violation as v:
            return v, ck.labels
        return None, ck.labels
    finally:
        ck.close()
