"""known_findings.json (committed, never written at run time) and the regression corpus."""
import fnmatch
import glob
import json
import os

VERIF = os.path.dirname(os.path.dirname(os.path.dirname(os.path.abspath(__file__))))
PATH = os.path.join(VERIF, "known_findings.json")


def load():
    if not os.path.exists(PATH):
        return []
    with open(PATH) as f:
        return json.load(f)["findings"]


def for_property(prop):
    return [f for f in load() if f["property"] == prop]


def match_open(prop, bucket):
    for f in for_property(prop):
        if f.get("status") == "open" and fnmatch.fnmatchcase(bucket, f["bucket"]):
            return f
    return None


def regress_cases(prop):
    out = []
    for p in sorted(glob.glob(os.path.join(VERIF, "corpus", prop, "regress", "*.json"))):
        with open(p) as f:
            d = json.load(f)
        out.append((p, d["case"] if isinstance(d, dict) and "case" in d else d))
    return out
