"""Deterministic work counter: counts Python-level call events (call + c_call) through sys.setprofile and raises
StepBudgetExceeded past a budget.  'Never hangs / bounded work' thereby becomes a function of the input, not of
the wall clock.  A CPU-time alarm (ITIMER_VIRTUAL) is the backstop for stalls inside a single C call."""
import signal
import sys


class StepBudgetExceeded(BaseException):
    pass


class CpuAlarm(BaseException):
    pass


class Work:
    __slots__ = ("count", "limit")

    def __init__(self, limit):
        self.count = 0
        self.limit = limit

    def _prof(self, frame, event, arg):
        if event == "call" or event == "c_call":
            self.count += 1
            if self.count > self.limit:
                sys.setprofile(None)
                raise StepBudgetExceeded(self.count)

    def __enter__(self):
        sys.setprofile(self._prof)
        return self

    def __exit__(self, *a):
        sys.setprofile(None)
        return False


_armed = [False]


def _on_alarm(signum, frame):
    if _armed[0]:  # a signal that arrives while the limit is being taken down is dropped
        _armed[0] = False
        raise CpuAlarm()


class cpu_limit:
    """with cpu_limit(seconds): ... raises CpuAlarm when the body burns more CPU time than that"""

    def __init__(self, seconds):
        self.seconds = seconds

    def __enter__(self):
        self.old = signal.signal(signal.SIGVTALRM, _on_alarm)
        _armed[0] = True
        signal.setitimer(signal.ITIMER_VIRTUAL, self.seconds)
        return self

    def __exit__(self, *a):
        _armed[0] = False
        signal.setitimer(signal.ITIMER_VIRTUAL, 0)
        signal.signal(signal.SIGVTALRM, self.old)
        return False
