"""Shared driver for C16/C17/C18: history generators (Hypothesis + exhaustive small scope) over vf.qengine."""
import itertools

from hypothesis import given, strategies as st

from ..ctx import jdump
from ..qengine import run_history

CH = ["a", "b"]
CHSETS = [["a"], ["b"], ["a", "b"], []]
picks = st.lists(st.integers(0, 2), max_size=3)


def steps_strategy(extended, restart):
    """extended: C17's wait / re-add / late report / dropdead operations; restart: C18's save/restore step."""
    base = [
        (6, st.tuples(st.just("add"), st.sampled_from(CH), st.integers(0, 1), st.one_of(st.none(), st.integers(1, 4)),
                      st.sampled_from([None, None, 10, 50]), picks)),
        (5, st.tuples(st.just("pull"), st.integers(1, 3), st.sampled_from(CHSETS))),
        (5, st.tuples(st.just("run"))),
        (3, st.tuples(st.just("finish"), st.integers(1, 3), st.integers(0, 2), st.sampled_from(["ok", "ok", "err"]))),
        (2, st.tuples(st.just("kill"), st.integers(0, 5))),
        (2, st.tuples(st.just("advance"), st.sampled_from([5, 30, 60, 200]))),
        (3, st.tuples(st.just("disconnect"), st.integers(1, 3), picks)),
    ]
    if extended:
        base += [
            (2, st.tuples(st.just("wait"), st.integers(1, 2), st.lists(st.integers(0, 5), min_size=1, max_size=2))),
            (2, st.tuples(st.just("finish"), st.integers(1, 3), st.integers(0, 2), st.just("late"))),
            (1, st.tuples(st.just("dropdead"))),
            (1, st.tuples(st.just("advance"), st.just(4000))),
        ]
    if restart or extended:
        base.append((2, st.tuples(st.just("setinfok"), st.integers(0, 5), st.sampled_from([{"progress": 10}, {"status": "x"}, {"progress": 50, "article": "A"}]))))
    if restart:
        base.append((3, st.tuples(st.just("restart"))))
    pool = []
    for w, s in base:
        pool += [s] * w
    single = st.one_of(*pool).map(lambda t: [list(t)])
    # phrases that put the queue into the states the properties are about (a puller that is really blocked, several
    # pushes inside one scheduling quantum, a worker holding a finished job); drawn alongside single steps so that
    # every other order still occurs
    add = base[0][1]
    w = st.integers(1, 3)

    @st.composite
    def blocked_then_pushes(draw):
        chans = draw(st.sampled_from(CHSETS))
        out = [["pull", draw(w), chans], ["run"]]
        for _ in range(draw(st.integers(1, 3))):
            a = list(draw(add))
            if chans and draw(st.integers(0, 3)):
                a[1] = draw(st.sampled_from(chans))
            out.append(a)
        return out

    @st.composite
    def held_job(draw):
        wk = draw(w)
        a = list(draw(add))
        out = [a, ["pull", wk, draw(st.sampled_from([[a[1]], []]))], ["run"]]
        end = draw(st.integers(0, 4))
        if end == 0:
            out.append(["finish", wk, 0, draw(st.sampled_from(["ok", "err"]))])
        elif end == 1:
            out.append(["kill", draw(st.integers(0, 3))])
        elif end == 2:
            out.append(["advance", 200])
        elif end == 3:
            out.append(["disconnect", wk, [draw(st.integers(0, 2))]])
        if extended and end in (1, 2) and draw(st.booleans()):
            out.append(["finish", wk, 0, "late"])
        return out

    @st.composite
    def held_and_done(draw):
        wk = draw(w)
        a1, a2 = list(draw(add)), list(draw(add))
        a1[3], a2[3] = 1, 2
        return [a1, a2, ["pull", wk, []], ["run"], ["finish", wk, 0, draw(st.sampled_from(["ok", "err"]))], ["pull", wk, []], ["run"]]

    @st.composite
    def killed_and_readded(draw):
        # a worker still holds the killed generation of an id that was added again
        wk, slot = draw(w), draw(st.integers(1, 4))
        a = list(draw(add))
        a[3] = slot
        out = [a, ["pull", wk, []], ["run"], ["killid", slot], list(a)]
        tail = draw(st.integers(0, 4))
        if tail == 0:
            out += [["pull", draw(w), []], ["run"], ["disconnect", wk, [0]]]  # the new generation is held elsewhere when the old holder leaves
        else:
            out.append([["disconnect", wk, [0]], ["finish", wk, 0, "ok"], ["run"], ["pull", draw(w), []]][tail - 1])
        return out

    @st.composite
    def drained(draw):
        # every job finished and dropped after its ttl: the server holds no job at all (then restart, then new work)
        wk = draw(w)
        a = list(draw(add))
        a[3] = None  # an id chosen by the server
        out = [a]
        if draw(st.booleans()):
            out += [["pull", wk, []], ["run"], ["finish", wk, 0, draw(st.sampled_from(["ok", "err"]))]]
        else:
            out += [["kill", 0], ["kill", 1], ["kill", 2]]
        out += [["advance", 4000], ["dropdead"], ["advance", 4000], ["dropdead"]]
        if restart:
            out.append(["restart"])
        b = list(draw(add))
        b[3] = None
        return out + [b, ["pull", draw(w), []], ["run"]]

    @st.composite
    def wait_then_kill_readd(draw):
        # a client blocked on two jobs; one of them is killed and added again under the same id before the other finishes
        wk, c = draw(w), draw(st.integers(1, 2))
        a1, a2 = list(draw(add)), list(draw(add))
        a1[3], a2[3] = 3, 4
        out = [a1, a2, ["waitslots", c, draw(st.sampled_from([[3, 4], [4, 3], [3]]))], ["run"], ["killid", 3], list(a1)]
        if draw(st.booleans()):
            out.append(["run"])
        out += [["pull", wk, [a2[1]]], ["run"], ["finish", wk, 0, draw(st.sampled_from(["ok", "err"]))], ["run"]]
        return out

    burst = st.lists(add, min_size=2, max_size=3).map(lambda ts: [list(t) for t in ts])
    return st.one_of(single, single, single, blocked_then_pushes(), held_job(), burst, held_and_done() if restart else held_job(),
                     killed_and_readded(), drained() if (restart or extended) else held_job(),
                     wait_then_kill_readd() if extended else held_job())


def flatten(chunks, limit):
    out = []
    for c in chunks:
        out.extend(c)
    return out[:limit]


def to_json(step):
    return [list(x) if isinstance(x, tuple) else x for x in step]


# reduced alphabet for exhaustive small-scope enumeration: 2 workers, 1-2 channels
def small_ops(restart=False, extended=False):
    ops = [
        ["add", "a", 0, None, None, [0]], ["add", "a", 0, None, None, [1]], ["add", "a", 1, None, 10, [0]],
        ["pull", 1, ["a"]], ["pull", 2, []],
        ["run"],
        ["finish", 1, 0, "ok"], ["finish", 2, 0, "err"],
        ["kill", 0],
        ["advance", 60],
        ["disconnect", 1, [0]], ["disconnect", 2, [1]],
    ]
    if extended:
        ops += [["wait", 1, [0]], ["add", "a", 0, 1, None, [0]], ["finish", 1, 0, "late"]]
    if restart:
        ops += [["restart"], ["setinfok", 0, {"progress": 7}]]
    return ops


def run_case(ctx, prop, steps, props, sample_every=None):
    v, labels = run_history(steps, props)
    if v is not None:
        ctx.fail(v.bucket, dict(steps=steps, props=sorted(props)), v.detail)
    return v, labels


NONTRIVIAL = ("push-while-puller-blocked", "two-pushes-in-one-quantum", "holder-disconnect", "timeout", "restart-with-held-and-done",
              "disconnect-while-blocked", "ordering-checked-on-2+-candidates", "late-report", "wait-released", "re-add")


def run_shard(ctx, prop, props, extended, restart, quick_len, thorough_len, quick_n, thorough_n, steps_quick=10, steps_thorough=14,
              restart_everywhere=False):
    # (1) exhaustive small scope, split round-robin
    ops = small_ops(restart=restart and not restart_everywhere, extended=extended)
    maxlen = thorough_len if ctx.thorough else quick_len
    idx = evals = nontriv = 0
    lab = {}
    for n in range(1, maxlen + 1):
        for seq in itertools.product(range(len(ops)), repeat=n):
            idx += 1
            if idx % ctx.nshards != ctx.shard:
                continue
            steps = [ops[i] for i in seq]
            variants = [steps]
            if restart_everywhere:
                variants = [steps[:k] + [["restart"]] + steps[k:] for k in range(len(steps) + 1)]
            for hist in variants:
                if evals % 64 == 0:
                    ctx.announce(dict(steps=hist, props=sorted(props)))
                v, labels = run_case(ctx, prop, hist, props)
                evals += 1
                nt = any(l in labels for l in NONTRIVIAL)
                nontriv += nt
                for l in labels:
                    lab["x:" + l] = lab.get("x:" + l, 0) + 1
                if nt and evals % 4001 == 0 and len(ctx.samples.get("exhaustive", [])) < 2:
                    ctx.samples.setdefault("exhaustive", []).append(dict(steps=hist, labels=sorted(labels)))
        ctx.exhaustive.append("all histories of %d operations over the %d-operation reduced alphabet%s" % (
            n, len(ops), " with a restart inserted at every position" if restart_everywhere else ""))
    lab["exhaustive"] = evals
    lab["nontrivial"] = nontriv
    ctx.record_bulk(evals, nontriv, lab)

    # (2) Hypothesis over the full alphabet
    nsteps = steps_thorough if ctx.thorough else steps_quick

    @ctx.settings(ctx.n(quick_n, thorough_n), shrink=True)
    @given(st.lists(steps_strategy(extended, restart), min_size=1, max_size=nsteps))
    def t(chunks):
        steps = [to_json(s) for s in flatten(chunks, nsteps)]
        variants = [steps]
        if restart_everywhere:
            variants = [steps[:k] + [["restart"]] + steps[k:] for k in range(len(steps) + 1)]
        for hist in variants:
            case = dict(steps=hist, props=sorted(props))
            ctx.announce(case)
            v, labels = run_history(hist, props)
            nt = any(l in labels for l in NONTRIVIAL)
            ls = ["random"] + sorted(labels) + (["nontrivial"] if nt else [])
            ctx.record(jdump(hist), ls, nt, sample=dict(steps=hist, labels=sorted(labels)))
            if v is not None:
                ctx.fail(v.bucket, case, v.detail, raise_=True)

    ctx.run_given(t)


def replay(ctx, case, props):
    v, labels = run_history(case["steps"], case.get("props") or props)
    if v is not None:
        ctx.fail(v.bucket, case, v.detail)
