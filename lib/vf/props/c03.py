"""C03 - template expansion always terminates with a string, whatever templates contain."""
import itertools
import traceback

from hypothesis import given, strategies as st

from ..budget import CpuAlarm, cpu_limit
from ..ctx import jdump, repo_frame_bucket
from ..shrink import ddmin

SHAPES = ["", "abc", "7", "-3", "1.5", "1e9", "99999999999", "999999999999999999999999", "a/b/c", "../x", "{{PAGENAME}}",
          "2^99999999", "9^99999999", "1e999999999", "9e9e9", "xrY", "9999", "5 round -999999999", "1e308*10", "9" * 400]
LANGS = "de en es fr it ja nl no pl pt simple sv".split()

META = dict(
    level="exploration",
    rule=(
        "(1) call matrix: every upper-case/#-attribute of MagicResolver, every magic_nodes.registry key and every alias in "
        "siteinfo.magicwords of the site x argument count 0..3 x 20 argument shapes (empty, word, small/negative/decimal/exponent/huge "
        "numbers, paths, nested call, expression bombs), with and without ':'; exhaustive for <= 2 arguments on en+de (thorough: all 12 "
        "languages and 3 arguments for the built-in names), sampled for 3; (2) Hypothesis universes: a page + 0-4 templates over the "
        "template alphabet (braces, pipes, parser-function names, include tags, nowiki, unbalanced braces) with self/mutual recursion "
        "and argument-doubling templates nested to depth 40. Oracle: Expander(...).expandTemplates() returns str, raises nothing, stays "
        "under 5 s CPU (typical 1 ms) and 4-6 GiB address space, output <= 64 KiB + 64*len(all texts). Failures bucketed by innermost "
        "repo frame. Non-trivial: the call was resolved (output differs from the literal input); distinct = text+universe+lang."
    ),
    assumptions=[
        "a call that stalls inside one C-level operation is caught by the parent watchdog (shard stalled > stall_s, case re-run alone)",
        "page names and template names are valid titles; raw text consists of Unicode scalar values",
    ],
    floors={"nontrivial": (0.4, None)},
    stall_s=150,
)

_dbs = {}


def get_db(lang, templates=None):
    from ..wikidb import WikiDB

    if templates:
        return WikiDB(pages={"Page/Sub": "x", "A": "a"}, lang=lang, templates=templates)
    if lang not in _dbs:
        _dbs[lang] = WikiDB(pages={"Page/Sub": "x", "A": "a"}, lang=lang)
    return _dbs[lang]


def names_for(lang, builtin_only=False):
    from mwlib.parser import expander  # noqa: F401  (import order matters: templ.* modules import each other circularly)
    from mwlib.parser.templ import magic_nodes, magics
    from ..wikidb import siteinfo

    names = set()
    for n in dir(magics.MagicResolver):
        if n.startswith("_"):
            continue
        if n.upper() == n or n.startswith("#"):
            names.add(n)
    names |= set(magic_nodes.registry)
    builtin = sorted(names)
    if builtin_only:
        return builtin
    aliases = set()
    for m in siteinfo(lang).get("magicwords", []):
        for a in m["aliases"]:
            a = a.rstrip(":")
            if a and "$1" not in a:
                aliases.add(a)
                aliases.add("#" + a if not a.startswith("#") else a)
    return builtin + sorted(aliases - names)


_overruns = [0]


def exhausted():
    """three CPU overruns in this shard: stop generating (compiled code cannot be interrupted by the alarm, so every
    further blow-up would cost its full run time)"""
    return _overruns[0] >= 3


def expand(text, lang, templates=None, pagename="Page/Sub"):
    """returns (result, failure) with failure = (bucket, detail) or None"""
    import time

    t0 = time.process_time()
    r, fail = _expand(text, lang, templates, pagename)
    used = time.process_time() - t0
    if fail is None and used > 5:
        fail = ("cpu:more-than-5s", "%.0f s of CPU" % used)
    if fail is not None and fail[0].startswith("cpu:"):
        _overruns[0] += 1
    return r, fail


def _expand(text, lang, templates=None, pagename="Page/Sub"):
    from mwlib.parser.expander import Expander

    total = len(text) + sum(len(v) for v in (templates or {}).values())
    try:
        with cpu_limit(5):
            r = Expander(text, pagename=pagename, wikidb=get_db(lang, templates)).expandTemplates()
    except CpuAlarm:
        return None, ("cpu:more-than-5s", "")
    except RecursionError as e:
        return None, ("exception:RecursionError:" + repo_frame_bucket(e).split(":", 1)[1], "")
    except MemoryError:
        return None, ("exception:MemoryError", "")
    except BaseException as e:
        if isinstance(e, (KeyboardInterrupt, SystemExit)):
            raise
        return None, ("exception:" + repo_frame_bucket(e), traceback.format_exc()[-1500:])
    if not isinstance(r, str):
        return None, ("not-a-string", repr(type(r)))
    if len(r) > 65536 + 64 * total:
        return r, ("output-out-of-proportion", "%d characters of output for %d characters of input" % (len(r), total))
    return r, None


KF_BLOWUP = "expansion-blowup:argument-multiplying-template-nested-deep"


def tainted(case):
    """a template that uses a parameter several times, called nested >= 10 deep or recursively: the expansion is
    exponential in the nesting depth and nothing bounds it (open known finding)"""
    t = case.get("templates") or {}
    multiplying = [n for n, b in t.items() if b.count("{{{") >= 2]
    if not multiplying:
        return False
    texts = [case["text"]] + list(t.values())
    deep = any(x.count("{{" + n) >= 10 for x in texts for n in multiplying)
    recursive = any(("{{" + n) in b for n in t for b in t.values())
    return deep or recursive


def check(ctx, case):
    r, fail = expand(case["text"], case["lang"], case.get("templates"))
    if fail and fail[0] == "output-out-of-proportion" and case.get("templates"):
        fail = None  # the proportion clause is about a single magic-word / parser-function call, not about templates
    if fail:
        bucket = fail[0]
        if tainted(case) and bucket.split(":")[0] in ("cpu", "exception") and ("Memory" in bucket or bucket.startswith("cpu")):
            bucket = KF_BLOWUP
        ctx.fail(bucket, case, fail[1])
    return r


def replay(ctx, case):
    check(ctx, case)


# ---- template universes -----------------------------------------------------------
def tmpl_lexemes(names):
    base = ["{{", "}}", "{{{", "}}}", "|", "=", ":", "#", "[[", "]]", "\n", " ", "a", "B", "1", "2", "-3", "1.5", "x=y", "{{T1", "{{T2", "{{T3", "{{:T1",
            "{{T1}}", "{{T2|a}}", "{{T3|{{T3|x}}}}", "{{{1", "{{{1|", "{{{1}}}", "{{{a}}}", "{{{a|b}}}", "<noinclude>", "</noinclude>", "<includeonly>",
            "</includeonly>", "<onlyinclude>", "</onlyinclude>", "<nowiki>", "</nowiki>", "<!--", "-->", "{{#if:", "{{#ifeq:", "{{#switch:", "{{#expr:",
            "{{#ifexpr:", "{{#expr|", "{{#ifexpr|", "{{#if|", "{{#switch|", "{{#ifeq|", "{{lc|", "{{#time:", "{{#tag:", "{{#titleparts:", "{{#rel2abs:", "{{#iferror:", "{{#ifexist:", "{{subst:", "{{safesubst:",
            "{{formatnum:", "{{lc:", "{{ucfirst:", "{{ns:", "{{localurl:", "{{fullurl:", "{{urlencode:", "{{anchorencode:", "{{int:", "{{msg:", "{{raw:",
            "{{padleft:", "{{padright:", "#default", "*", "{|", "/", "../", "Y-m-d", "xr", "xrY", "+", "^", "mod", "*", "1e308", "10", "0", "round", "-999999999", "inf", "nan", "(", ")", "e", "<ref>", "</ref>", "<math>",
            "</math>", "\x7f", "", "9999", "99999999999", "1e999", "{{Missing}}", "{{/Sub}}", "{{Page/Sub}}", "{{:A}}", "{{T1|{{T2|{{T3|x}}}}}}"]
    return base + ["{{%s:" % n for n in names] + ["{{%s}}" % n for n in names]


@st.composite
def universe(draw, lex):
    def body(k):
        return "".join(draw(st.lists(st.sampled_from(lex), min_size=1, max_size=k)))

    t = {}
    n = draw(st.integers(0, 4))
    if n >= 1:
        t["T1"] = body(12)
    if n >= 2:
        t["T2"] = body(12)
    if n >= 3:
        t["T3"] = draw(st.sampled_from(["{{{1}}}{{{1}}}", "{{{1}}}{{{1}}}{{{1}}}", "{{T3|{{{1}}}{{{1}}}}}", body(8)]))
    if n >= 4:
        # recursion with fan-out, directly and through parser functions that evaluate their arguments themselves
        t["T4"] = draw(st.sampled_from(["{{T4}}", "{{T1}}{{T4}}", "{{T4|{{T4}}}}", "x{{T2}}", "{{T4}}{{T4}}", "a{{T4}}b{{T4}}c",
                                        "{{#expr|{{T4}}}}{{#expr|{{T4}}}}", "{{#ifexpr|{{T4}}|{{T4}}|{{T4}}}}{{T4}}", "{{#if:{{T4}}|{{T4}}}}{{T4}}",
                                        "{{lc:{{T4}}}}{{uc:{{T4}}}}", "{{#switch:{{T4}}|a={{T4}}}}{{T4}}", "{{#iferror:{{T4}}|{{T4}}|{{T4}}}}{{T4}}"]))
        if draw(st.booleans()):
            page_prefix = "{{T4}}"
        else:
            page_prefix = ""
    else:
        page_prefix = ""
    kind = draw(st.integers(0, 5))
    if kind == 0 and "T3" in t:
        depth = draw(st.integers(2, 40))
        page = "{{T3|" * depth + "x" + "}}" * depth
    elif kind == 1:
        depth = draw(st.integers(2, 40))
        o, c = draw(st.sampled_from([("{{#if:x|", "}}"), ("{{T1|", "}}"), ("{{{1|", "}}}"), ("{{lc:", "}}"), ("{{#switch:a|a=", "}}")]))
        page = o * depth + body(4) + c * draw(st.sampled_from([depth, 0, depth // 2]))
    else:
        page = body(20)
    return dict(text=page_prefix + page, templates=t, lang=draw(st.sampled_from(LANGS)))


def run_shard(ctx):
    # (1) call matrix, split round-robin
    langs = LANGS if ctx.thorough else ["en", "de"]
    idx = evals = nontriv = 0
    lab = {}
    for lang in langs:
        names = names_for(lang)
        builtin = set(names_for(lang, True))
        for name in names:
            for k in range(0, 4):
                combos = itertools.product(SHAPES, repeat=k)
                if k == 3 and not (ctx.thorough and name in builtin):
                    # sampled: a deterministic slice of the 2744 combinations
                    combos = itertools.islice(itertools.product(SHAPES, repeat=3), (hash(name) + ctx.seed) % 37, None, 37)
                for args in combos:
                    for text in (["{{%s}}" % name, "{{%s:}}" % name] if k == 0 else ["{{%s:%s}}" % (name, "|".join(args))]):
                        idx += 1
                        if idx % ctx.nshards != ctx.shard or exhausted():
                            continue
                        case = dict(text=text, lang=lang)
                        if evals % 16 == 0:
                            ctx.announce(case)
                        r = check(ctx, case)
                        evals += 1
                        nt = r is not None and r != text
                        nontriv += nt
                        lab["argc:%d" % k] = lab.get("argc:%d" % k, 0) + 1
                        if nt and evals % 5003 == 0 and len(ctx.samples.get("matrix", [])) < 2:
                            ctx.samples.setdefault("matrix", []).append(dict(text=text, lang=lang, result=r[:100]))
        ctx.exhaustive.append("call matrix %s: %d names x <=2 arguments x %d shapes" % (lang, len(names), len(SHAPES)))
    lab["matrix"] = evals
    lab["nontrivial"] = nontriv
    ctx.record_bulk(evals, nontriv, lab)

    # (2) universes
    lex = tmpl_lexemes(names_for("en", True))

    @ctx.settings(ctx.n(8000, 200000))
    @given(universe(lex))
    def t(case):
        if exhausted():
            return
        ctx.announce(case)
        if tainted(case) and ctx.is_known_open(KF_BLOWUP):
            ctx.excluded += 1
            return
        r = check(ctx, case)
        nt = r is not None and r != case["text"]
        labels = ["universe", "templates:%d" % len(case["templates"])]
        if nt:
            labels.append("nontrivial")
        if any(("{{" + n) in b for n, b in case["templates"].items()) or "T4" in case["templates"]:
            labels.append("recursion")
        ctx.record(jdump(case), labels, nt, sample=dict(case, result=(r or "")[:120]))

    ctx.run_given(t)
    if exhausted():
        ctx.inconclusive.append("shard %d stopped generating after 3 CPU overruns" % ctx.shard)

    for bucket, f in list(ctx.failures.items())[:6]:
        case = f["case"]

        def same(text, case=case, bucket=bucket):
            _, fail = expand(text, case["lang"], case.get("templates"))
            return fail is not None and fail[0] == bucket

        if len(case["text"]) > 12 and not bucket.startswith("cpu"):
            chars = ddmin(list(case["text"]), lambda cs: same("".join(cs)), 20.0)
            small = dict(case, text="".join(chars))
            if len(jdump(small)) < f["size"]:
                f["case"], f["size"] = small, len(jdump(small))
