"""shared by C02 / C07: generate a document of the grammar, parse it, return (src, expected, tree)"""
from hypothesis import strategies as st

from ..gens.doc import G

LANGS = "de en es fr it ja nl no pl pt simple sv".split()


@st.composite
def documents(draw, restricted=False):
    rng = draw(st.randoms(use_true_random=False))
    lang = draw(st.sampled_from(LANGS))
    g = G(rng, lang, restricted=restricted)
    src, exp = g.doc()
    return dict(src=src, lang=lang, expected=[[w, list(c)] for w, c in exp], big_table_words=list(g.big_table_words), tall_rows=[list(r) for r in g.tall_rows],
                features=sorted(g.features))


def parse(doc):
    from mwlib.parser import advtree
    from mwlib.parser.refine.uparser import parse_string
    from ..wikidb import WikiDB

    tree = parse_string(title="T", raw=doc["src"], wikidb=WikiDB(lang=doc["lang"]), lang=doc["lang"])
    advtree.build_advanced_tree(tree)
    return tree


def doc_labels(doc):
    src = doc["src"]
    chains = [tuple(c) for _, c in doc["expected"]]
    labels = ["lang:" + doc["lang"]]
    if any("Table" in c for c in chains):
        labels.append("table")
    if any(sum(1 for x in c if x == "Item") >= 2 for c in chains):
        labels.append("nested-list")
    if any(sum(1 for x in c if x == "Table") >= 2 for c in chains):
        labels.append("nested-table")
    secs = [tuple(x for x in c if x.startswith("Sec:")) for c in chains]
    if any(len(s) >= 2 for s in secs):
        labels.append("sub-section")
    if "<b>" in src or "<i>" in src or "<table>" in src or "<ul>" in src or "<ol>" in src:
        labels.append("html-spelling")
    if any("Ref" in c for c in chains):
        labels.append("ref")
    if any("Caption" in c for c in chains):
        labels.append("caption")
    for f in doc.get("features", []):
        if f in ("tall-cell", "jump-list", "foreign-prefix-link"):
            labels.append(f)
    kinds = set()
    for c in chains:
        for x in c:
            if x.split(":")[0] in ("Table", "List", "Pre", "DT", "DD", "Sec"):
                kinds.add(x.split(":")[0])
    nontrivial = len(kinds) >= 2 and any(
        (sum(1 for x in c if x in ("Item", "Table", "Row")) + sum(1 for x in c if x.startswith(("Sec:", "Link", "List"))) + sum(1 for x in c if x in ("Strong", "Emphasized"))) >= 2 for c in chains)
    return labels, nontrivial


_warm = [False]


def warmup():
    """One process parses documents of all site languages: before the first judged document every language has parsed a
    line of links whose prefixes are namespaces on *other* sites only, so that state shared between the sites' handlers
    (a cache keyed by prefix, say) is in place for every case and for every replay of a single case."""
    if _warm[0]:
        return
    _warm[0] = True
    import random

    for lang in LANGS:
        g = G(random.Random(0), lang)
        src = " ".join("[[%s:Xq|q]] [[:%s:Xq|q]]" % (p, p) for p in g.foreign_prefixes()) + "\n"
        try:
            parse(dict(src=src, lang=lang))
        except Exception:
            pass
