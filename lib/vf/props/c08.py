"""C08 - rendering is total and complete: every visible word reaches the output."""
import contextlib
import io
import os
import re
import shutil
import subprocess
import sys
import traceback
import zipfile

from hypothesis import given, strategies as st

from ..ctx import HarnessError, jdump, repo_frame_bucket
from ..gens.doc import G

META = dict(
    level="exploration",
    rule=(
        "Hypothesis draws a collection of 1-4 documents of C02's grammar (every section with body text; unique words per article), with "
        "or without chapters, 0-2 templates stored in the archive and called from the articles (their words are expected too), 0-2 PNG "
        "images stored under their canonical names with imageinfo and used as thumbnails / in a gallery / in a table cell, each with its "
        "own caption word. The collection is written with the real writer side (FsOutput, zip_dir) and opened with wiki.make_wiki. "
        "Oracle (rl): the writer entry point returns, pypdf opens the file, and the extracted text with whitespace and hyphens removed "
        "contains every expected word. Oracle (odf): the writer entry point returns, content.xml / styles.xml / meta.xml are well-formed "
        "and odflint reports nothing but the mimetype note the repository's own test tolerates, and no article was dropped as a whole ('gives up': "
        "at least one expected word of every article is in content.xml's text; the total of missing ODF words is reported as a note, not asserted). A slice of documents additionally goes "
        "through the single-article test mode of both writers. Non-trivial: >= 2 articles, or a template call, or an image."
    ),
    assumptions=[
        "presence of words in the extracted PDF text is checked, not layout or order",
        "inline-image captions are alt text and not required; thumbnail, gallery and table-cell captions are",
        "the ODF book path is judged on package well-formedness, lint and 'no article dropped as a whole' (the statement demands word-by-word completeness of the PDF only)",
    ],
    floors={"nontrivial": (0.5, None), "multi-article": (0.3, None), "images": (0.25, None), "chapters": (0.1, None)},
    stall_s=300,
)


FILLER = "Filler sentence number %d goes on for a while so that the paragraph takes some room on the page and wraps around at least once or twice.\n\n"


@st.composite
def collections(draw):
    rng = draw(st.randoms(use_true_random=False))
    narts = draw(st.sampled_from([1, 1, 2, 2, 3, 4]))
    ntmpl = draw(st.integers(0, 2))
    nimg = draw(st.integers(0, 2))
    words = []
    counter = [90000]

    def w():
        counter[0] += 1
        return "wq%05dx" % counter[0]

    templates = {}
    for i in range(ntmpl):
        tw = w()
        templates["Tmpl%d" % (i + 1)] = "template text %s {{{1|}}}" % tw
    arts = []
    for i in range(narts):
        g = G(rng, "en", restricted=True)
        g.n = 10000 * (i + 1)
        src, exp = g.doc()
        if not exp:
            x = g.w()
            src = x + "\n\n" + src
            exp = [(x, ())]
        expected = [wd for wd, _ in exp]
        extra = []
        for name, body in templates.items():
            if draw(st.booleans()):
                aw = w()
                extra.append("{{%s|%s}}" % (name, aw))
                expected += [aw, re.search(r"wq\d+x", body).group(0)]
        for k in range(nimg):
            use = draw(st.sampled_from(["none", "thumb", "gallery", "cell", "thumb+gallery"]))
            fname = "File:Img%d.png" % (k + 1)
            if "thumb" in use:
                cw = w()
                extra.append("[[%s|thumb|caption %s]]" % (fname, cw))
                expected.append(cw)
            if "gallery" in use:
                cw = w()
                extra.append("<gallery>\n%s|gallery caption %s\n</gallery>" % (fname, cw))
                expected.append(cw)
            if use == "cell":
                cw, ow = w(), w()
                extra.append('{| class="wikitable"\n|-\n| [[%s|thumb|cell caption %s]] || %s\n|-\n| x || y\n|}' % (fname, cw, ow))
                expected += [cw, ow]
        if draw(st.integers(0, 3)) == 0:
            # a preformatted line (leading blank) too wide for the page at the smallest font: the writer has to break it
            lw = [w() for _ in range(draw(st.sampled_from([19, 25, 43])))]
            extra.append(" " + " ".join(lw))
            expected += lw
        if draw(st.integers(0, 14)) == 0:
            # a table cell taller than a page that cannot be split (one paragraph): the first layout pass fails and the
            # writer's fail-safe second pass has to take over for the whole book
            hw = [w() for _ in range(1500)]
            cw0, cw1 = w(), w()
            extra.append("{|\n|+ cell caption %s\n|-\n| %s || %s\n|}" % (cw0, cw1, " ".join(hw)))
            expected += [cw0, cw1] + hw
        src = src + "\n\n" + "\n\n".join(extra) + "\n"
        if nimg and draw(st.integers(0, 2)) == 0:
            # a float block: 1-3 thumbnails directly followed by a paragraph, after 0-12 filler paragraphs (its place on the page varies)
            nthumbs = draw(st.integers(1, 3))
            lines = []
            for _ in range(nthumbs):
                cw = w()
                lines.append("[[File:Img%d.png|thumb|caption %s]]" % (draw(st.integers(1, nimg)), cw))
                expected.append(cw)
            bw, aw = w(), w()
            body = bw + (" and some more words of body text" * draw(st.sampled_from([0, 0, 3, 40])))
            expected += [bw, aw]
            block = "".join(FILLER % j for j in range(draw(st.integers(0, 12)))) + "== Float block ==\n" + "\n".join(lines) + "\n" + body + "\n\n== After ==\n" + aw + "\n\n"
            src = block + src if draw(st.booleans()) else src + "\n\n" + block
        arts.append(dict(title="Article %d" % (i + 1), src=src, expected=expected))
    chapters = draw(st.booleans()) and narts > 1
    sizes = {"File:Img%d.png" % (k + 1): draw(st.sampled_from([[120 + 40 * k, 80], [120 + 40 * k, 80], [200, 300], [150, 600], [900, 200]])) for k in range(nimg)}
    return dict(articles=arts, templates=templates, images=["File:Img%d.png" % (k + 1) for k in range(nimg)], image_sizes=sizes, chapters=chapters)


def build_archive(case, base):
    from PIL import Image
    from mwlib.apps.buildzip import zip_dir
    from mwlib.core import metabook
    from mwlib.network import fetch
    from mwlib.network.siteinfo import get_siteinfo

    d = os.path.join(base, "nw")
    shutil.rmtree(d, ignore_errors=True)
    fs = fetch.FsOutput(d)
    fs.write_siteinfo(get_siteinfo("en"))
    mb = metabook.Collection(title="Generated Book")
    for i, a in enumerate(case["articles"]):
        if case["chapters"] and i % 2 == 0:
            mb.items.append(metabook.Chapter(title="Chapter %d" % (i // 2 + 1)))
        mb.append_article(a["title"])
    fs.dump_json(metabook=mb)
    fs.nfo = {"format": "nuwiki", "base_url": "http://example.org/w/", "script_extension": ".php"}
    pid = 0
    for a in case["articles"]:
        pid += 1
        fs.write_pages({"pages": {str(pid): {"title": a["title"], "ns": 0, "revisions": [{"revid": 100 + pid, "*": a["src"]}]}}})
        fs.set_db_key("authors", a["title"], ["Alice", "ANONIPEDITS:2"])
    for name, body in case["templates"].items():
        pid += 1
        fs.write_pages({"pages": {str(pid): {"title": "Template:" + name, "ns": 10, "revisions": [{"revid": 100 + pid, "*": body}]}}})
    for k, title in enumerate(case["images"]):
        pid += 1
        fs.write_pages({"pages": {str(pid): {"title": title, "ns": 6, "revisions": [{"*": "description {{PD}} [[User:Painter]]"}]}}})
        iw, ih = case.get("image_sizes", {}).get(title, (120 + 40 * k, 80))
        Image.new("RGB", (iw, ih), (200, 30 + 90 * k, 30)).save(fs.get_imagepath(title), "PNG")
        fs.set_db_key("imageinfo", title, {"url": "http://example.org/images/%s" % title[5:], "descriptionurl": "http://example.org/wiki/" + title,
                                           "width": iw, "height": ih, "size": 300})
        fs.set_db_key("authors", title, ["Painter"])
    fs.write_redirects({})
    fs.write_licenses([])
    fs.write_authors()
    fs.write_html()
    fs.imageinfo.close()
    fs.close()
    return zip_dir(d, os.path.join(base, "collection.zip"))


_lint = []


def lint_module():
    if not _lint:
        exe = shutil.which("odflint") or "/venv/bin/odflint"
        if not os.path.exists(exe):
            raise HarnessError("odflint not found")
        mod = sys.__class__("odflint")
        argv = sys.argv[:]
        stderr = sys.stderr
        try:
            sys.stderr = io.StringIO()
            del sys.argv[1:]
            with contextlib.suppress(SystemExit), open(exe, "rb") as f:
                exec(compile(f.read(), exe, "exec"), mod.__dict__)
        finally:
            sys.argv[:] = argv
            sys.stderr = stderr
        _lint.append(mod)
    return _lint[0]


def lint(path):
    mod = lint_module()
    out = io.StringIO()
    with contextlib.redirect_stdout(out), contextlib.redirect_stderr(out):
        try:
            mod.lint(path)
        except SystemExit:
            pass
    return out.getvalue()


def pdf_text(path):
    import pypdf

    with open(path, "rb") as f:
        rd = pypdf.PdfReader(f)
        txt = "".join(p.extract_text() or "" for p in rd.pages)
    return re.sub(r"[\s\-­‐‑]+", "", txt)


def close_dbs(env):
    w = getattr(env, "wiki", None)
    for name in ("authors", "html", "imageinfo"):
        db = getattr(getattr(w, "nuwiki", None), name, None)
        with contextlib.suppress(Exception):
            getattr(db, "database", db).close()
    with contextlib.suppress(Exception):
        w.clear()


def check(ctx, case):
    from mwlib.core import wiki
    from mwlib.utils.status import Status

    base = os.path.join(ctx.workdir, "c08-%d" % os.getpid())
    shutil.rmtree(base, ignore_errors=True)
    os.makedirs(base)
    expected = [w for a in case["articles"] for w in a["expected"]]

    def F(bucket, detail):
        ctx.fail(bucket, case, detail)

    try:
        try:
            z = build_archive(case, base)
        except Exception:
            raise HarnessError("cannot build the archive: " + traceback.format_exc()[-1500:])
        sink = io.StringIO()
        # ---- rl ----
        env = wiki.make_wiki(z)
        try:
            from mwlib.writers.rl.writer import writer as rl_writer

            out = os.path.join(base, "out.pdf")
            st_ = Status(None)
            st_.stdout = None
            try:
                with contextlib.redirect_stdout(sink), contextlib.redirect_stderr(sink):
                    rl_writer(env, output=out, status_callback=st_)
            except Exception as e:
                F("rl:writer-raised:" + repo_frame_bucket(e) + (":multi-article" if len(case["articles"]) > 1 else ""), traceback.format_exc()[-1800:])
            else:
                try:
                    txt = pdf_text(out)
                except Exception as e:
                    F("rl:pdf-unreadable", repr(e))
                else:
                    missing = [w for w in expected if w not in txt and w.lower() not in txt.lower()]
                    if missing:
                        kinds = sorted({kind_of(case, w) for w in missing})
                        F("rl:words-missing:" + "+".join(kinds), "%d of %d words not in the PDF text: %r" % (len(missing), len(expected), missing[:10]))
        finally:
            close_dbs(env)
        # ---- odf ----
        env = wiki.make_wiki(z)
        try:
            from mwlib.writers.odf.writer import writer as odf_writer

            out = os.path.join(base, "out.odt")
            st_ = Status(None)
            st_.stdout = None
            try:
                with contextlib.redirect_stdout(sink), contextlib.redirect_stderr(sink):
                    odf_writer(env, output=out, status_callback=st_)
            except Exception as e:
                F("odf:writer-raised:" + repo_frame_bucket(e), traceback.format_exc()[-1800:])
            else:
                try:
                    from lxml import etree

                    with zipfile.ZipFile(out) as zf:
                        for member in ("content.xml", "styles.xml", "meta.xml"):
                            etree.fromstring(zf.read(member))
                except Exception as e:
                    F("odf:package-not-well-formed", repr(e))
                else:
                    r = lint(out)
                    lines = [l for l in r.splitlines() if l.strip() and "mimetype" not in l]
                    if lines:
                        F("odf:lint", "\n".join(lines[:8]))
                    # "gives up": an article none of whose words reached the document was dropped as a whole
                    # (word-by-word completeness is stated for the PDF only; for ODF it is counted, not asserted)
                    with zipfile.ZipFile(out) as zf:
                        otxt = "".join(etree.fromstring(zf.read("content.xml")).itertext())
                    dropped = [a["title"] for a in case["articles"] if a["expected"] and not any(w in otxt for w in a["expected"])]
                    if dropped:
                        F("odf:article-dropped", "no word of article(s) %r is in content.xml (%d characters of text)" % (dropped, len(otxt)))
                    miss = sum(1 for w in expected if w not in otxt)
                    ctx.note("odf_words_expected", ctx.notes.get("odf_words_expected", 0) + len(expected))
                    ctx.note("odf_words_missing_from_content_xml", ctx.notes.get("odf_words_missing_from_content_xml", 0) + miss)
        finally:
            close_dbs(env)
    finally:
        shutil.rmtree(base, ignore_errors=True)


def kind_of(case, word):
    for a in case["articles"]:
        m = re.search(r"(gallery caption|cell caption|caption|\{\{Tmpl\d\|)\s*" + word, a["src"])
        if m:
            return {"gallery caption": "gallery-caption", "cell caption": "cell-caption", "caption": "thumb-caption"}.get(m.group(1), "template-argument")
    for body in case["templates"].values():
        if word in body:
            return "template-text"
    return "article-text"


def check_single(ctx, case):
    """single-article test mode of both writers on the first article"""
    from mwlib.parser import advtree
    from mwlib.parser.refine.uparser import parse_string
    from mwlib.parser.treecleaner import TreeCleaner
    from ..wikidb import WikiDB

    a = case["articles"][0]
    db = WikiDB(lang="en", templates=case["templates"])
    sink = io.StringIO()
    base = os.path.join(ctx.workdir, "c08s-%d" % os.getpid())
    shutil.rmtree(base, ignore_errors=True)
    os.makedirs(base)
    try:
        for which in ("rl", "odf"):
            try:
                tree = parse_string(title=a["title"], raw=a["src"], wikidb=db, lang="en")
                advtree.build_advanced_tree(tree)
                with contextlib.redirect_stdout(sink), contextlib.redirect_stderr(sink):
                    TreeCleaner(tree).clean_all()
                    if which == "rl":
                        from mwlib.writers.rl.writer import RlWriter

                        w = RlWriter(test_mode=True)
                        w.write(tree) if hasattr(w, "write") else None
                    else:
                        from mwlib.writers.odf.writer import ODFWriter

                        ow = ODFWriter()
                        ow.writeTest(tree)
                        out = os.path.join(base, "single.odt")
                        ow.getDoc().save(out[:-4], True)
                        r = lint(out)
                        lines = [l for l in r.splitlines() if l.strip() and "mimetype" not in l]
                        if lines:
                            ctx.fail("odf:single-article:lint", case, "\n".join(lines[:8]))
            except HarnessError:
                raise
            except Exception as e:
                ctx.fail("%s:single-article-raised:%s" % (which, repo_frame_bucket(e)), case, traceback.format_exc()[-1500:])
    finally:
        shutil.rmtree(base, ignore_errors=True)


def replay(ctx, case):
    check(ctx, case)
    check_single(ctx, case)


def prepare():
    lint_module()


def run_shard(ctx):
    count = [0]

    @ctx.settings(ctx.n(800, 16000))
    @given(collections())
    def t(case):
        ctx.announce(case)
        check(ctx, case)
        count[0] += 1
        if count[0] % 2 == 0:
            check_single(ctx, case)
        labels = []
        if len(case["articles"]) > 1:
            labels.append("multi-article")
        if case["chapters"]:
            labels.append("chapters")
        if case["images"] and any("File:Img" in a["src"] for a in case["articles"]):
            labels.append("images")
        if any("{{Tmpl" in a["src"] for a in case["articles"]):
            labels.append("template-call")
        if any("== Float block ==" in a["src"] for a in case["articles"]):
            labels.append("float-block")
        if any(re.search(r"^ wq\d+x( wq\d+x){15,}", a["src"], re.M) for a in case["articles"]):
            labels.append("long-preformatted-line")
        if any(len(a["expected"]) > 1400 for a in case["articles"]):
            labels.append("cell-taller-than-a-page")
        if any(h > 250 for _, h in case.get("image_sizes", {}).values()):
            labels.append("tall-image")
        nt = bool(set(labels) & {"multi-article", "images", "template-call"})
        if nt:
            labels.append("nontrivial")
        ctx.record(jdump(case), labels, nt, sample=dict(articles=[a["title"] for a in case["articles"]], chapters=case["chapters"],
                                                        templates=sorted(case["templates"]), images=case["images"],
                                                        words=sum(len(a["expected"]) for a in case["articles"]), first=case["articles"][0]["src"][:300]))

    ctx.run_given(t)
