"""C05 - document trees stay well-formed and meet the writers' structural contract."""
from . import _treeprops

PROP = "C05"
META = dict(
    level="exploration",
    rule=(
        "Same soup / nesting / template-universe generator as C01 with the cleaner-trigger attribute lexemes included (overflow:auto, "
        "region_list, noprint/navbox/infobox classes, position:absolute, display:none), plus documents of C02's grammar. After "
        "build_advanced_tree and after EACH of the 58 entries of TreeCleaner.cleaner_methods applied one by one, an independent "
        "iterative identity-set validator checks: every node once, child.parent is the listing node, root without parent, no cycle, "
        "Text childless; after the full sequence the writers' contract (Table > Row/Caption, Row > Cell, ItemList > Item and the "
        "converse). Non-trivial: at least one pass changed the tree (structural hash); distinct = text+lang+db."
    ),
    assumptions=[
        "a pass that raises ends the sequence for that document (that is C06's finding); C05 judges the trees it can observe",
        "inputs on which parsing itself fails are C01's business and are skipped here (counted as label parse-failed)",
    ],
    floors={"nontrivial": (0.5, None)},
    stall_s=180,
)


def run_shard(ctx):
    _treeprops.run_shard(ctx, PROP)


def replay(ctx, case):
    _treeprops.replay(ctx, case, PROP)
