"""C09 - opaque tags stay opaque: nowiki/pre/math/source/timeline bodies are never interpreted."""
import html.entities
import re

from hypothesis import given, strategies as st

from ..ctx import jdump, repo_frame_bucket
from ..gens import soup as S

TAGS = ["nowiki", "pre", "math", "source", "syntaxhighlight", "timeline"]
CONTEXTS = {
    "top": "AAq %s ZZq",
    "item": "* AAq %s ZZq\n",
    "cell": "{|\n|-\n| AAq %s ZZq\n|}\n",
    "bold": "'''AAq %s ZZq'''",
    "html-bold": "<b>AAq %s ZZq</b>",
    "template-arg": "{{E|AAq %s ZZq}}",
    "heading": "== AAq %s ZZq ==\n",
    "after-open-link": "[[ AAq %s ZZq",
    "ref": "<ref>AAq %s ZZq</ref>",
    "ref-after-region": "<nowiki>QQq</nowiki> <ref>AAq %s ZZq</ref>",  # two marker scopes: the page's and the footnote's
    "deflist": "; t : AAq %s ZZq\n",
    "caption": "{|\n|+ AAq %s ZZq\n|-\n| x\n|}\n",
    "uc-arg": "{{uc:AAQ %s ZZQ}}",
    "template-sibling": "{{N}} AAq %s ZZq {{S}}",
    # the help-page idiom: the region quoted in <nowiki> next to the real one (equal source text, different kinds)
    "quoted-twin-before": "<nowiki>%(t)s</nowiki> gives AAq %(t)s ZZq",
    "quoted-twin-after": "AAq %(t)s ZZq is written <nowiki>%(t)s</nowiki>",
}
TWIN_CONTEXTS = ("quoted-twin-before", "quoted-twin-after")


def embed(cname, tagged):
    tpl = CONTEXTS[cname]
    return tpl % {"t": tagged} if "%(t)s" in tpl else tpl % tagged

MARKERS = {"uc-arg": ("AAQ ", " ZZQ")}
DB_CONTEXTS = ("template-arg", "uc-arg", "template-sibling")
# bodies that consist of one delimiter only: a parser that looks at token text without its type takes them for markup
DELIMITER_BODIES = ["|", "||", "!", "!!", "|-", "|+", "=", "}}", "{{", "]]", "[[", "*", ":", ";", "''", "----", "|}", "{|", "\n", " ", "<", ">", "&", "#"]

META = dict(
    level="exploration",
    rule=(
        "Hypothesis draws (tag of {nowiki, pre, math, source, syntaxhighlight, timeline} in any letter case with optional blanks before "
        "'>', attributes, body = lexeme soup over the full alphabet (wiki markup, template calls, parameters, HTML and include-control "
        "tags, comments, well- and ill-formed entities) minus the tag's own closing tag and U+007F (for pre also minus <nowiki>), one of "
        "16 embedding contexts (incl. table caption, the region quoted in <nowiki> next to the real one, parser-function argument, next to templates that hold opaque regions themselves), with a wiki database (expander path) or without). Oracle: the text carried by the tag's node equals the "
        "body - for nowiki/pre modulo a strict reference entity grammar in which every well-formed character reference matches itself or "
        "its character; the multiset of non-Text node classes equals that of the same context with a plain-word body; the uniq "
        "protect/restore round trip is the identity. Non-trivial: the body holds >= 1 markup lexeme that would build a node if interpreted."
    ),
    assumptions=[
        "bodies exclude the tag's own closing tag and U+007F (the quantifier); pre bodies exclude <nowiki> tags, which pre strips by design",
        "a decoder may leave a well-formed entity undecoded; anything else in the body must arrive unchanged",
        "one leading newline directly after <pre> may be dropped (HTML rule) - accepted either way",
    ],
    floors={"nontrivial": (0.5, None), "db": (0.3, None)},
)

ENT = re.compile(r"&(#[0-9]+|#[xX][0-9a-fA-F]+|[A-Za-z][A-Za-z0-9]*);")


def entity_char(name):
    if name.startswith("#") and len(name.lstrip("#xX").lstrip("0")) > 8:
        return None  # far above U+10FFFF (and possibly beyond what int() converts): not a character
    if name.startswith("#x") or name.startswith("#X"):
        v = int(name[2:], 16)
    elif name.startswith("#"):
        v = int(name[1:])
    else:
        v = html.entities.name2codepoint.get(name)
        if v is None:
            return None
    if v is None or v >= 0x110000 or 0xD800 <= v <= 0xDFFF:
        return None  # (a surrogate is not a character: the reference stays literal)
    return chr(v)


def body_pattern(body):
    """regex that the observed text must full-match: every well-formed reference may appear decoded or not"""
    out = []
    pos = 0
    for m in ENT.finditer(body):
        out.append(re.escape(body[pos:m.start()]))
        ch = entity_char(m.group(1))
        if ch is None:
            out.append(re.escape(m.group(0)))
        else:
            out.append("(?:%s|%s)" % (re.escape(m.group(0)), re.escape(ch)))
        pos = m.end()
    out.append(re.escape(body[pos:]))
    return "".join(out)


def valid_body(tag, body, context=None):
    if "\x7f" in body:
        return False
    if context == "caption" and "\n" in body:
        return False  # a caption is a one-line construct
    if context in TWIN_CONTEXTS and (tag == "nowiki" or re.search(r"</?nowiki", body, re.I) or "<!--" in body):
        return False  # the quoting <nowiki> must stay one region (comments are dropped inside nowiki, kept as source elsewhere)
    if context in ("ref", "ref-after-region") and re.search(r"</ref", body, re.I):
        return False  # would close the surrounding <ref> of the context (as it does in MediaWiki), not an opacity question
    if re.search(r"</%s\s*>" % tag, body, re.I):
        return False
    if tag == "syntaxhighlight" and re.search(r"</syntaxhighlight\s*>", body, re.I):
        return False
    if tag == "pre" and re.search(r"</?nowiki", body, re.I):
        return False
    if re.search(r"<%s[\s/>]" % tag, body, re.I) or body.lower().endswith("<" + tag):
        return False  # a nested opening tag of the same kind changes where the region starts (not an opacity question)
    return True


def make_db(lang):
    from ..wikidb import WikiDB

    return WikiDB(pages={"P": "x", "A": "a"}, lang=lang, templates={"E": "{{{1}}}", "T": "TT", "T2": "''t''", "N": "<nowiki>[[n]]</nowiki>", "S": "<source lang=c>int ''x'';</source>"})


def node_classes(tree):
    from mwlib.parser import nodes as N

    out = {}
    for n in tree.allchildren():
        if n.__class__ is N.Text:
            continue
        k = n.__class__.__name__ + (":" + str(getattr(n, "caption", "")) if n.__class__.__name__ == "TagNode" else "")
        out[k] = out.get(k, 0) + 1
    return out


def parse(src, lang, usedb):
    from mwlib.parser.refine.uparser import parse_string

    return parse_string(title="P", raw=src, wikidb=make_db(lang) if usedb else None, lang=lang)


def observe(tree, tag):
    """text carried by the tag's node(s)"""
    from mwlib.parser import nodes as N

    got = []
    for n in tree.allchildren():
        c = n.__class__
        if tag == "math" and c is N.Math:
            got.append(n.caption)
        elif tag == "timeline" and c is N.Timeline:
            got.append(n.caption)
        elif tag in ("source", "syntaxhighlight") and c is N.TagNode and n.caption == "source":
            got.append("".join(x.caption for x in n.allchildren() if x.__class__ is N.Text))
        elif tag == "pre" and c is N.PreFormatted and n.caption == "pre":
            got.append("".join(x.caption for x in n.allchildren() if x.__class__ is N.Text))
    return got


KF_CAPTION = "caption-context:complex-tag-ends-the-caption"


def check(ctx, case):
    tag, body, cname, lang, usedb = case["tag"], case["body"], case["context"], case["lang"], case["db"]
    usedb = usedb or cname in DB_CONTEXTS  # (a <ref> around the tag is only followed on the expander path)
    left, right = MARKERS.get(cname, ("AAq ", " ZZq"))
    open_tag = "<%s%s%s>" % (case["spelling"], case["attrs"], case["blank"])
    close_tag = "</%s%s>" % (case["spelling"], case["blank"])
    src = embed(cname, open_tag + body + close_tag)
    ref_src = embed(cname, open_tag + "plainword" + close_tag)
    small = dict(case, src=src)

    def F(bucket, detail):
        if cname == "caption" and tag != "nowiki" and "node-missing" in bucket:
            bucket = KF_CAPTION  # open known finding: keeps its own bucket so that anything else is still reported
        ctx.fail(bucket, small, detail)

    try:
        tree = parse(src, lang, usedb)
        ref = parse(ref_src, lang, usedb)
    except Exception as e:
        return F("exception:" + repo_frame_bucket(e), repr(e))
    from mwlib.parser import nodes as N

    if tag == "nowiki":
        alltext = "".join(n.caption for n in tree.allchildren() if n.__class__ is N.Text)
        if not re.search(re.escape(left) + body_pattern(body) + re.escape(right), alltext, re.S):
            why = classify(tag, body)
            return F("nowiki:body-changed" + why, "text in the tree %r, body %r" % (alltext, body))
    else:
        got = observe(tree, tag)
        if cname == "template-sibling" and tag in ("source", "syntaxhighlight") and len(got) == 2 and got[1] == "int ''x'';":
            got = got[:1]  # the second one is the sibling template's own region
        if len(got) != 1:
            return F("%s:node-missing-or-split" % tag + classify(tag, body), "found %d %s nodes (%r) for body %r" % (len(got), tag, got, body))
        if tag == "pre":
            pat = body_pattern(body)
            ok = re.fullmatch(pat, got[0], re.S) or (body.startswith("\n") and re.fullmatch(body_pattern(body[1:]), got[0], re.S))
        else:
            ok = got[0] == body
        if not ok:
            return F("%s:body-changed" % tag + classify(tag, body), "node carries %r, body was %r" % (got[0], body))
    # no protection marker may reach the tree, and the opaque regions of sibling templates keep their own bodies
    for n in tree.allchildren():
        cap = getattr(n, "caption", None)
        if isinstance(cap, str) and "\x7fUNIQ-" in cap:
            return F("%s:marker-leaked" % tag + classify(tag, body), "%s node carries %r" % (n.__class__.__name__, cap[:120]))
    if cname == "template-sibling":
        alltext = "".join(n.caption for n in tree.allchildren() if n.__class__ is N.Text)
        if "[[n]] " + left not in alltext or not alltext.rstrip().endswith("int ''x'';"):
            return F("%s:sibling-template-region-changed" % tag, "text in the tree %r" % alltext[:300])
    a, b = node_classes(tree), node_classes(ref)
    if a != b:
        extra = {k: a.get(k, 0) - b.get(k, 0) for k in set(a) | set(b) if a.get(k, 0) != b.get(k, 0)}
        return F("%s:body-built-nodes" % tag + classify(tag, body), "node classes differ from the same context with a plain body: %r" % extra)


def classify(tag, body):
    why = ""
    if re.search(r"</?(includeonly|noinclude|onlyinclude)", body, re.I):
        why += ":include-tag-in-body"
    if ENT.search(body) or "&" in body:
        why += ":entity-in-body"
    if "<!--" in body:
        why += ":comment-in-body"
    return why


def check_roundtrip(ctx, text):
    from mwlib.utils import uniq

    u = uniq.Uniquifier()
    try:
        protected = u.replace_tags(text)
        back = u.replace_uniq(protected)
    except Exception as e:
        ctx.fail("uniq:exception:%s" % type(e).__name__, dict(kind="roundtrip", text=text), repr(e))
        return
    # comments are dropped by replace_tags by design; compare modulo comments
    def strip_comments(t):
        return re.sub(r"(\n[ ]*)?<!--.*?-->([ ]*\n)?", lambda m: "\n" if (m.group(1) and m.group(2)) else (m.group(1) or "") + (m.group(2) or ""), t, flags=re.S)

    want = strip_comments(text)
    # (a comment inside a protected region is part of its body and comes back verbatim while comments outside are dropped:
    # the two sides are compared with every comment removed)
    if back != want and strip_comments(back) != want and "\x7f" not in text and "<nowiki" not in text.lower():
        # (nowiki regions are restored as their inner text by design, so only nowiki-free texts are compared)
        ctx.fail("uniq:roundtrip-not-identity", dict(kind="roundtrip", text=text), "%r -> %r -> %r (expected %r)" % (text, protected, back, want))


def replay(ctx, case):
    if case.get("kind") == "roundtrip":
        return check_roundtrip(ctx, case["text"])
    check(ctx, case)


@st.composite
def cases(draw):
    tag = draw(st.sampled_from(TAGS))
    context = draw(st.sampled_from(sorted(CONTEXTS)))
    if tag == "nowiki" and context in TWIN_CONTEXTS:
        context = "top"
    for _ in range(4):
        if draw(st.integers(0, 5)) == 0:
            body = draw(st.sampled_from(DELIMITER_BODIES))
            lex = [("table", body)]
        else:
            lex = draw(S.soup(10))
            body = "".join(l for _, l in lex)
        if valid_body(tag, body, context):
            break
    else:
        lex, body = [("text", "x")], "x"
    spelling = "".join(draw(st.sampled_from([c, c.upper()])) for c in tag) if draw(st.integers(0, 3)) == 0 else tag
    attrs = ""
    if tag in ("source", "syntaxhighlight"):
        attrs = draw(st.sampled_from([" lang=c", ' lang="python"', "", " lang=x enclose=none"]))
    elif tag == "math" and draw(st.integers(0, 3)) == 0:
        attrs = ' display="block"'
    blank = draw(st.sampled_from(["", "", "", " "])) if not attrs else ""
    classes = sorted({c for c, _ in lex})
    return dict(tag=tag, spelling=spelling, attrs=attrs, blank=blank, body=body, context=context,
                lang=draw(st.sampled_from(["en", "de", "fr", "ja"])), db=draw(st.booleans()), classes=classes)


FUZZ_IMPORTS = ['mwlib.parser.refine.uparser', 'mwlib.parser.refine.core', 'mwlib.parser.refine.compat', 'mwlib.parser.expander', 'mwlib.parser.refine.parse_table', 'mwlib.parser.refine.tagparser', 'mwlib.parser.styleanalyzer', 'mwlib.parser.nodes', 'mwlib.parser.advtree', 'mwlib.utils.uniq']


def run_shard(ctx):
    @ctx.settings(ctx.n(40000, 320000))
    @given(cases())
    def t(case):
        ctx.announce(case)
        if case["context"] == "caption" and case["tag"] != "nowiki" and ctx.is_known_open(KF_CAPTION):
            ctx.excluded += 1
            return
        markup = [c for c in case["classes"] if c not in ("text", "free", "line", "control")]
        nt = bool(markup)
        labels = ["tag:" + case["tag"], "ctx:" + case["context"], "db" if (case["db"] or case["context"] in DB_CONTEXTS) else "no-db"]
        if nt:
            labels.append("nontrivial")
        labels += ["body:" + c for c in markup]
        check(ctx, case)
        ctx.record(jdump(case), labels, nt, sample=dict(tag=case["tag"], context=case["context"], body=case["body"][:200], db=case["db"]))

    ctx.run_given(t)
    ctx.fuzz_campaign("", (0, 120000))

    @ctx.settings(ctx.n(4000, 100000))
    @given(S.soup(16))
    def r(lex):
        text = "".join(l for _, l in lex)
        check_roundtrip(ctx, text)
        ctx.record("rt:" + text, ["roundtrip"], any(c == "special-tag" or c == "tag" for c, _ in lex))

    ctx.run_given(r, "roundtrip")
