"""C14 - what is written into a collection archive is what is read back."""
import copy
import os
import re
import shutil

from hypothesis import given, strategies as st

from ..ctx import jdump

SEP = "\n\x0c --page-- "
LANGS = ["de", "en", "fr", "ja", "pl"]

META = dict(
    level="exploration",
    rule=(
        "Hypothesis draws a site (5 bundled siteinfos), 1-6 page titles in namespaces 0/6/10/14 (Unicode, canonicalised to API "
        "form), 1-3 revisions per title with arbitrary Unicode text (empty, CR/LF/CRLF, '--page--'-like lines), a write history "
        "(order of write_pages/write_expanded_page calls, duplicates), a redirect map and 0-4 image titles over letters, digits, "
        "blanks, '- . ~' and Unicode letters; FsOutput -> zip_dir -> wiki.make_wiki; then every revision is read by revid, every "
        "title by name and by 3 drawn equivalent spellings, every redirect source, every image under 4 drawn spellings. "
        "Non-trivial: >= 2 revisions of one title, or a redirect, or a non-ASCII image title; distinct = distinct archives."
    ),
    assumptions=[
        "texts containing the record separator '\\n\\x0c --page-- ' are excluded (outside the format, per the quantifier)",
        "titles contain no '%', ':', '/', '#', '|', '[', ']', '{', '}', '<', '>', '_' and are the fixed point of the site's own "
        "title normalisation (canonical API form); page texts do not start with a #REDIRECT directive",
        "redirect sources are not themselves stored pages; redirects are one level deep (the API resolves chains)",
        "each title is stored either with revision ids (1-3 revisions) or as one revision-less expanded record",
    ],
    floors={"nontrivial": (0.5, None), "multi-revision": (0.25, None), "image:non-ascii": (0.1, None)},
)

_cache = {}


def site(lang):
    if lang not in _cache:
        from mwlib.core.nshandling import NsHandler
        from mwlib.network.siteinfo import get_siteinfo

        si = copy.deepcopy(get_siteinfo(lang))
        names = {}
        for ns in si["namespaces"].values():
            names.setdefault(ns["id"], []).append(ns["*"])
            if ns.get("canonical"):
                names[ns["id"]].append(ns["canonical"])
        for a in si.get("namespacealiases", []):
            names.setdefault(a["id"], []).append(a["*"])
        _cache[lang] = (si, NsHandler(copy.deepcopy(si)), names)
    return _cache[lang]


title_char = st.one_of(
    st.sampled_from(list("abcxyzABCXYZ0123456789 -.~()',!") + ["é", "ß", "ö", "Ü", "日", "本", "я", "ж", "ł"]),
    st.characters(whitelist_categories=("Lu", "Ll", "Lo", "Nd"), max_codepoint=0x2FFFF),
)
image_char = st.one_of(
    st.sampled_from(list("abcsfixyzABCKXYZ0123456789 -.~") + ["é", "ß", "ö", "日", "я", "ł"]),
    st.characters(whitelist_categories=("Lu", "Ll", "Lo"), max_codepoint=0x2FFFF),
)


def tidy(s):
    return re.sub(r" +", " ", s).strip(" ")


@st.composite
def page_text(draw):
    parts = draw(st.lists(st.one_of(
        st.text(st.characters(blacklist_categories=("Cs",)), max_size=30),
        st.sampled_from(["\n", "\r\n", "\r", "\x0c", " --page-- ", "\n --page-- ", "\n\x0c", "--page--", "\x0c --page-- {}",
                         "\n\x0c --page--", "{\"title\": 1}", "", "\x00", "  "]),
    ), max_size=8))
    t = "".join(parts)
    while SEP in t:
        t = t.replace(SEP, "\n\x0c--page-- ")
    if t.startswith(SEP[1:]) and draw(st.integers(0, 9)):
        t = "x" + t  # keep the open known finding's input class rare so that little of the run is excluded
    if re.match(r"^[ \t\n\r\0\x0B]*#", t):
        t = "x" + t
    return t


@st.composite
def spelling(draw, lang, nsid, partial, image=False):
    """An equivalent spelling of the canonical title (localname(nsid) + ':' + partial)."""
    si, _, names = site(lang)
    cap = si["general"].get("case") == "first-letter"
    p = partial
    if cap and draw(st.booleans()) and p[0].lower().upper() == p[0] and len(p[0].lower()) == 1:
        p = p[0].lower() + p[1:]
    p = "".join(draw(st.sampled_from([" ", "_", "  ", "_ "])) if c == " " else c for c in p)
    if nsid == 0:
        s = p
        if draw(st.integers(0, 3)) == 0:
            s = ":" + s
        return draw(st.sampled_from(["", " ", "_"])) + s + draw(st.sampled_from(["", " ", "_"])), 0
    if image and draw(st.integers(0, 4)) == 0:
        return p, 6  # bare name, default namespace 6
    if not image and ":" not in p and draw(st.integers(0, 3)) == 0:
        return p, nsid  # bare name resolved through the default namespace, as {{Infobox}} is
    nm = draw(st.sampled_from(sorted(set(names[nsid]))))
    nm = "".join(draw(st.sampled_from([c, c.upper(), c.lower()])) if len(c.upper()) == 1 and len(c.lower()) == 1 and c.upper().lower() == c.lower() else c for c in nm)
    nm = nm.replace(" ", draw(st.sampled_from([" ", "_"])))
    return nm + draw(st.sampled_from([":", ": ", " :", ":_"])) + p, draw(st.sampled_from([0, nsid]))


@st.composite
def cases(draw):
    lang = draw(st.sampled_from(LANGS))
    si, h, names = site(lang)
    used = set()
    titles = []
    # revision ids cross digit-count boundaries (98 -> 104, 999999999 -> 1000000000): numeric vs textual order differ there
    revid = [draw(st.sampled_from([100, 100, 1, 7, 80, 95, 970, 9990, 99980, 999999970, 2 ** 31 - 60]))]

    def fresh_title(ns, chars=title_char, ext=""):
        for _ in range(5):
            raw = tidy("".join(draw(st.lists(chars, min_size=1, max_size=10)))) + ext
            if not raw or raw[0] in "~":
                raw = "T" + raw
            full = h.splitname(raw, ns)[2]
            nsid, partial, full2 = h.splitname(full, 0)
            if nsid != ns or not partial or full2 != full or full.lower() in used:
                continue
            used.add(full.lower())
            return full, partial
        n = len(used)
        full = h.splitname("Zz%d%s" % (n, ext), ns)[2]
        used.add(full.lower())
        return full, h.splitname(full, 0)[1]

    pages = []
    for _ in range(draw(st.integers(1, 6))):
        ns = draw(st.sampled_from([0, 0, 10, 14, 6]))
        full, partial = fresh_title(ns)
        if draw(st.integers(0, 5)) == 0:
            revs = [dict(revid=None, text=draw(page_text()), how="expanded")]
        else:
            revs = []
            for _ in range(draw(st.integers(1, 3))):
                revid[0] += draw(st.integers(1, 50))
                revs.append(dict(revid=revid[0], text=draw(page_text()), how=draw(st.sampled_from(["pages", "pages", "expanded"]))))
        pages.append(dict(title=full, ns=ns, partial=partial, revs=revs,
                          spellings=[list(draw(spelling(lang, ns, partial))) for _ in range(3)]))
    # namesakes: the same name in another namespace (article 'Infobox' next to 'Template:Infobox')
    for p0 in list(pages):
        if draw(st.integers(0, 3)) == 0 and ":" not in p0["partial"]:
            ns2 = draw(st.sampled_from([n for n in (0, 10, 14) if n != p0["ns"]]))
            full2 = h.splitname(p0["partial"], ns2)[2]
            nsid2, partial2, full3 = h.splitname(full2, 0)
            if nsid2 == ns2 and full3 == full2 and full2.lower() not in used and partial2 == p0["partial"]:
                used.add(full2.lower())
                revid[0] += draw(st.integers(1, 50))
                pages.append(dict(title=full2, ns=ns2, partial=partial2, namesake=True,
                                  revs=[dict(revid=revid[0], text=draw(page_text()), how="pages")],
                                  spellings=[list(draw(spelling(lang, ns2, partial2))) for _ in range(3)]))
    # write history: one entry per (page index, revision index), in a drawn order, with optional duplicates
    writes = [(i, j) for i, p in enumerate(pages) for j in range(len(p["revs"]))]
    writes = list(draw(st.permutations(writes)))
    if draw(st.integers(0, 2)) == 0 and writes:
        dup = draw(st.sampled_from(writes))
        if pages[dup[0]]["revs"][dup[1]]["revid"] is not None and pages[dup[0]]["revs"][dup[1]]["how"] == "pages":
            writes.append(dup)
    redirects = []
    for _ in range(draw(st.integers(0, 2))):
        tgt = draw(st.sampled_from(pages))
        src, spartial = fresh_title(tgt["ns"])
        redirects.append(dict(src=src, ns=tgt["ns"], target=tgt["title"],
                              spellings=[list(draw(spelling(lang, tgt["ns"], spartial))) for _ in range(2)]))
    images = []
    for _ in range(draw(st.integers(0, 4))):
        full, partial = fresh_title(6, image_char, draw(st.sampled_from([".png", ".jpg", ".PNG", ".svg", ""])))
        images.append(dict(title=full, partial=partial, data="img:" + full,
                           spellings=[list(draw(spelling(lang, 6, partial, image=True))) for _ in range(4)]))
        if not partial.isascii() and draw(st.booleans()):
            # adversarial twin for the injectivity clause: spell one non-ASCII letter the way fs_escape would
            i = [k for k, c in enumerate(partial) if not c.isascii()][0]
            twin = partial[:i] + "~%d~" % ord(partial[i]) + partial[i + 1:]
            tfull = h.splitname(twin, 6)[2]
            if tfull.lower() not in used and h.splitname(tfull, 0)[2] == tfull:
                used.add(tfull.lower())
                tp = h.splitname(tfull, 0)[1]
                images.append(dict(title=tfull, partial=tp, data="img:" + tfull, twin=True,
                                   spellings=[list(draw(spelling(lang, 6, tp, image=True))) for _ in range(2)]))
    # compatibility twins: a second, distinct image title that differs only by a compatibility variant of one letter
    # (long s, fullwidth letter, ligature, Kelvin sign, superscript digit) or by the case of a later letter
    for im in list(images):
        if im.get("twin") or draw(st.integers(0, 2)):
            continue
        partial = im["partial"]
        cands = [(k, COMPAT[c]) for k, c in enumerate(partial) if c in COMPAT and k > 0]
        cands += [(k, c.swapcase()) for k, c in enumerate(partial) if k > 0 and c.isalpha() and c.isascii()]
        if not cands:
            continue
        k, rep = draw(st.sampled_from(cands))
        twin = partial[:k] + rep + partial[k + 1:]
        tfull = h.splitname(twin, 6)[2]
        if tfull.lower() not in used and tfull != im["title"] and h.splitname(tfull, 0)[2] == tfull:
            used.add(tfull.lower())
            tp = h.splitname(tfull, 0)[1]
            images.append(dict(title=tfull, partial=tp, data="img:" + tfull, twin=True, compat_twin=True,
                               spellings=[list(draw(spelling(lang, 6, tp, image=True))) for _ in range(2)]))
    return dict(lang=lang, pages=pages, writes=[list(w) for w in writes], redirects=redirects, images=images)


COMPAT = {"s": "\u017f", "A": "\uff21", "a": "\uff41", "K": "\u212a", "i": "\u2170", "2": "\u00b2", "1": "\u00b9", "f": "\uff46", "o": "\u00ba",
          "e": "\uff45", "T": "\uff34", "x": "\u2179", "c": "\u217d", "d": "\u217e", "m": "\u217f", "l": "\u217c", "v": "\u2174"}
KF_PREFIX = "format:text-starts-with-record-separator-tail"


def tainted(case):
    """page text beginning with form feed + ' --page-- ' joins the header's newline into a record separator
    (open known finding; such cases carry their own bucket so that everything else is still reported)"""
    return any(r["text"].startswith(SEP[1:]) for p in case["pages"] for r in p["revs"])


def check(ctx, case):
    from mwlib.apps.buildzip import zip_dir
    from mwlib.core import metabook, wiki
    from mwlib.network import fetch

    si = site(case["lang"])[0]
    base = os.path.join(ctx.workdir, "c14-%d" % os.getpid())
    shutil.rmtree(base, ignore_errors=True)
    os.makedirs(base)

    def F(bucket, detail):
        ctx.fail(KF_PREFIX if tainted(case) else bucket, case, detail)

    w = None
    try:
        try:
            fs = fetch.FsOutput(os.path.join(base, "nw"))
            fs.write_siteinfo(si)
            fs.nfo = {"format": "nuwiki", "base_url": "http://example.org/w/", "script_extension": ".php"}
            pages = case["pages"]
            for i, j in case["writes"]:
                p, r = pages[i], pages[i]["revs"][j]
                if r["how"] == "expanded":
                    fs.write_expanded_page(p["title"], p["ns"], r["text"], revid=r["revid"])
                else:
                    fs.write_pages({"pages": {str(i): {"title": p["title"], "ns": p["ns"],
                                                       "revisions": [{"revid": r["revid"], "*": r["text"]}]}}})
            fs.write_redirects({r["src"]: r["target"] for r in case["redirects"]})
            for im in case["images"]:
                with open(fs.get_imagepath(im["title"]), "wb") as f:
                    f.write(im["data"].encode("utf-8"))
            fs.write_licenses([])
            fs.dump_json(metabook=metabook.Collection())
            fs.write_authors()
            fs.write_html()
            fs.imageinfo.close()
            fs.close()
            z = zip_dir(os.path.join(base, "nw"), os.path.join(base, "nw.zip"))
            env = wiki.make_wiki(z)
            w = env.wiki
        except Exception as e:
            import traceback

            return F("exception:write-or-open:%s" % type(e).__name__, traceback.format_exc()[-1500:])

        def text_of(page):
            return None if page is None else page.rawtext

        for p in case["pages"]:
            withid = [r for r in p["revs"] if r["revid"] is not None]
            for r in withid:
                try:
                    got = text_of(w.get_page(p["title"], revision=r["revid"]))
                except Exception as e:
                    F("exception:get_page:%s" % type(e).__name__, repr(e))
                    continue
                if got != r["text"]:
                    F("by-revid:text-differs", "%r rev %r: wrote %r read %r" % (p["title"], r["revid"], r["text"], got))
            want = max(withid, key=lambda r: r["revid"])["text"] if withid else p["revs"][0]["text"]
            try:
                got = text_of(w.get_page(p["title"]))
            except Exception as e:
                F("exception:get_page:%s" % type(e).__name__, repr(e))
                continue
            if got != want:
                F("by-title:" + ("not-newest-revision" if got in [r["text"] for r in p["revs"]] else "text-differs"),
                  "%r: expected %r read %r" % (p["title"], want, got))
            for sp, dns in p["spellings"]:
                try:
                    got = text_of(w.normalize_and_get_page(sp, dns))
                except Exception as e:
                    F("exception:normalize_and_get_page:%s" % type(e).__name__, repr(e))
                    continue
                if got != want:
                    F("by-spelling:page-not-found" if got is None else "by-spelling:text-differs",
                      "%r (canonical %r, defaultns %r): expected %r read %r" % (sp, p["title"], dns, want, got))
        bytitle = {p["title"]: p for p in case["pages"]}
        for r in case["redirects"]:
            p = bytitle[r["target"]]
            withid = [x for x in p["revs"] if x["revid"] is not None]
            want = max(withid, key=lambda x: x["revid"])["text"] if withid else p["revs"][0]["text"]
            for sp, dns in [(r["src"], 0)] + [tuple(x) for x in r["spellings"]]:
                try:
                    got = text_of(w.normalize_and_get_page(sp, dns))
                except Exception as e:
                    F("exception:redirect:%s" % type(e).__name__, repr(e))
                    continue
                if got != want:
                    F("redirect:not-resolved", "%r -> %r: expected %r read %r" % (sp, r["target"], want, got))
        paths = {}
        for im in case["images"]:
            for sp, _dns in [(im["title"], 6)] + [tuple(x) for x in im["spellings"]]:
                try:
                    path = w.get_disk_path(sp)
                except Exception as e:
                    F("exception:get_disk_path:%s" % type(e).__name__, repr(e))
                    continue
                if path is None or not os.path.exists(path):
                    F("image:not-found", "%r (canonical %r) -> %r" % (sp, im["title"], path))
                    continue
                with open(path, "rb") as f:
                    data = f.read()
                if data != im["data"].encode("utf-8"):
                    F("image:wrong-bytes", "%r (canonical %r) -> %r holds %r" % (sp, im["title"], path, data[:80]))
                paths.setdefault(os.path.realpath(path), set()).add(im["title"])
        for path, ts in paths.items():
            if len(ts) > 1:
                F("image:titles-collide", "%r all resolve to %s" % (sorted(ts), path))
    finally:
        if w is not None:
            # each SqliteDict owns a thread; release them, or thousands of cases exhaust the address space
            for name in ("authors", "html", "imageinfo"):
                db = getattr(getattr(w, "nuwiki", None), name, None)
                try:
                    getattr(db, "database", db).close()
                except Exception:
                    pass
            try:
                w.clear()
            except Exception:
                pass
        shutil.rmtree(base, ignore_errors=True)


def replay(ctx, case):
    check(ctx, case)


def run_shard(ctx):
    @ctx.settings(ctx.n(1600, 48000))
    @given(cases())
    def t(case):
        ctx.announce(case)
        if tainted(case) and ctx.is_known_open(KF_PREFIX):
            ctx.excluded += 1
            return
        multi = any(len(p["revs"]) > 1 for p in case["pages"])
        nonascii = any(not im["title"].isascii() for im in case["images"])
        nt = multi or bool(case["redirects"]) or nonascii
        labels = ["lang:" + case["lang"]]
        if nt:
            labels.append("nontrivial")
        if multi:
            labels.append("multi-revision")
        if case["redirects"]:
            labels.append("redirect")
        if case["images"]:
            labels.append("image")
        if nonascii:
            labels.append("image:non-ascii")
        if any(im.get("twin") and not im.get("compat_twin") for im in case["images"]):
            labels.append("image:escape-twin")
        if any(p.get("namesake") for p in case["pages"]):
            labels.append("namesake-in-other-namespace")
        if any(im.get("compat_twin") for im in case["images"]):
            labels.append("image:compat-twin")
        ids = [r["revid"] for p in case["pages"] for r in p["revs"] if r["revid"] is not None]
        if len({len(str(i)) for i in ids}) > 1:
            labels.append("revids-of-different-length")
        if any(r["revid"] is None for p in case["pages"] for r in p["revs"]):
            labels.append("revision-less")
        if len(case["writes"]) > sum(len(p["revs"]) for p in case["pages"]):
            labels.append("duplicate-write")
        ctx.record(jdump(case), labels, nt, sample=dict(
            lang=case["lang"], titles=[p["title"] for p in case["pages"]], writes=case["writes"],
            redirects=[(r["src"], r["target"]) for r in case["redirects"]], images=[i["title"] for i in case["images"]],
            spellings=[p["spellings"][0] for p in case["pages"]][:3]))
        check(ctx, case)

    ctx.run_given(t)
