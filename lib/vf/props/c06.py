"""C06 - every cleaning pass completes on every parsed document."""
from . import _treeprops

PROP = "C06"
META = dict(
    level="exploration",
    rule=(
        "Same generator as C05. Each getattr(TreeCleaner(tree), name)(tree) for name in cleaner_methods must return normally within "
        "the deterministic call budget 1e6 + 2e3*nodes^2 (any exception is a violation, bucket = pass + innermost repo frame); the "
        "fixed-point passes must have reached their fixed point (a further _fix_nesting/_fix_paragraphs reports no change, a second "
        "remove_breaking_returns leaves the structural hash unchanged); a slice of cases is cross-checked through clean_all() with "
        "save_reports=True, which must record no 'ERROR:' report. Non-trivial: at least one pass changed the tree."
    ),
    assumptions=[
        "after the first raising pass the rest of the sequence is not judged for that document",
        "work is counted as Python call events; the 15 s CPU limit backs it up",
    ],
    floors={"nontrivial": (0.5, None)},
    stall_s=180,
)


def run_shard(ctx):
    _treeprops.run_shard(ctx, PROP)


def replay(ctx, case):
    _treeprops.replay(ctx, case, PROP)
