"""C15 - extraction never writes outside the destination."""
import hashlib
import io
import itertools
import os
import shutil
import zipfile

from hypothesis import given, strategies as st

from ..ctx import jdump

COMPONENTS = ["..", ".", "", "a", "b", "dest", "destx"]
DST_FORMS = ["abs", "abs/", "rel", "rel/", "abs/./", "abs/../dest"]

META = dict(
    level="exploration",
    rule=(
        "(1) exhaustive single-member archives: every component sequence of depth <= 4 (thorough <= 5) over "
        "{'..','.','','a','b',<dst name>,<dst name>+'x'} x every per-joint separator choice in {'/','\\\\'} x {relative, absolute "
        "inside the sandbox} x {file, directory entry}, destination given as absolute path; (2) Hypothesis: archives of 1-5 such "
        "members (depth <= 5) x 6 spellings of the destination (absolute, trailing separator, relative, './', '../dest'); one case in three "
        "opens the archive through wiki.make_wiki instead (formats nuwiki and multi-nuwiki, temporary directory inside the sandbox), one in "
        "six first extracts a benign archive into a sibling directory in the same process. Oracle: "
        "snapshot (path, type, size, sha1) of the whole sandbox root before/after nuwiki.extractall; every difference must lie under "
        "the destination; an archive with a lexically escaping member must raise. Non-trivial: >= 1 member with a '..', absolute "
        "or sibling-prefix component; distinct = distinct (member list, destination form)."
    ),
    assumptions=[
        "POSIX semantics: '\\\\' is an ordinary file-name character, only '/' separates components (the sandbox is Linux)",
        "absolute member names point into the check's own scratch root, never at system paths",
        "archives without an escaping member may be accepted or rejected (the statement only constrains what is written)",
    ],
    floors={"nontrivial": (0.40, None)},
)


def escapes(name, dst_real):
    """independent lexical resolution (POSIX): does the member resolve outside of the destination?
    A name that leaves the destination and comes back ('../dest/a') ends inside and is not escaping."""
    return abs_escapes(name if name.startswith("/") else dst_real + "/" + name, dst_real)


def abs_escapes(name, dst_real):
    parts = []
    for c in name.split("/"):
        if c in ("", "."):
            continue
        if c == "..":
            if parts:
                parts.pop()
        else:
            parts.append(c)
    p = "/" + "/".join(parts)
    return not (p + "/").startswith(dst_real + "/")  # resolving onto the destination itself is not outside


class Sandbox:
    def __init__(self, base):
        self.root = os.path.realpath(os.path.join(base, "sbx"))
        self.reset()

    def reset(self):
        shutil.rmtree(self.root, ignore_errors=True)
        os.makedirs(os.path.join(self.root, "dest"))
        os.makedirs(os.path.join(self.root, "destx"))
        os.makedirs(os.path.join(self.root, "a"))
        for rel in ("outside.txt", "destx/keep", "a/keep", "b"):
            with open(os.path.join(self.root, rel), "w") as f:
                f.write("original " + rel)
        self.dst = os.path.join(self.root, "dest")
        self.base = self.snapshot()

    def clean_dst(self):
        shutil.rmtree(self.dst, ignore_errors=True)
        os.makedirs(self.dst)

    def snapshot(self):
        snap = {}
        for dp, dns, fns in os.walk(self.root):
            if dp == self.dst or dp.startswith(self.dst + os.sep):
                dns[:] = []
                continue
            if dp != self.root:
                snap[dp] = ("dir",)
            for fn in fns:
                p = os.path.join(dp, fn)
                st_ = os.lstat(p)
                with open(p, "rb") as f:
                    snap[p] = ("file", st_.st_size, hashlib.sha1(f.read()).hexdigest())
            if dp == self.root and "dest" in dns:
                dns.remove("dest")
        return snap

    def dst_arg(self, form):
        if form == "abs":
            return self.dst
        if form == "abs/":
            return self.dst + "/"
        if form == "rel":
            return "dest"
        if form == "rel/":
            return "dest/"
        if form == "abs/./":
            return self.root + "/./dest/"
        if form == "abs/../dest":
            return self.dst + "/../dest"
        raise ValueError(form)


def member_name(sbx, comps, seps, absolute, trailing):
    name = comps[0]
    for sep, c in zip(seps, comps[1:]):
        name += sep + c
    if absolute:
        name = sbx.root + "/" + name
    if trailing and not name.endswith("/"):
        name += "/"
    return name


def run_case(ctx, sbx, members, form, case):
    """members: list of names. Returns whether extractall raised.
    case['entry']: 'extractall' (default) | 'make_wiki:nuwiki' | 'make_wiki:multi-nuwiki' - the collection zip opened through
    wiki.make_wiki, which extracts into a fresh temporary directory (tempfile.tempdir is pointed at the sandbox destination);
    case['history']: a benign archive is extracted into the sibling directory 'a' by the same process first."""
    import tempfile

    from mwlib.core import nuwiki

    entry = case.get("entry", "extractall")
    if case.get("history"):
        hb = io.BytesIO()
        with zipfile.ZipFile(hb, "w") as zf:
            zf.writestr("images/safe.png", b"earlier job")
            zf.writestr("nfo.json", b"{}")
        hb.seek(0)
        with zipfile.ZipFile(hb) as zf:
            try:
                nuwiki.extractall(zf, os.path.join(sbx.root, "a"))
            except Exception:
                pass  # a benign archive may be rejected; whatever it left behind is part of the new baseline
        sbx.base = sbx.snapshot()
        sbx.dirty = True
    buf = io.BytesIO()
    import warnings

    with warnings.catch_warnings():
        warnings.simplefilter("ignore")
        with zipfile.ZipFile(buf, "w") as zf:
            if entry != "extractall":
                zf.writestr("nfo.json", b'{"format": "%s"}' % entry.split(":")[1].encode())
            for i, name in enumerate(members):
                zf.writestr(zipfile.ZipInfo(name), b"" if name.endswith("/") else b"payload %d" % i)
    buf.seek(0)
    raised = None
    cwd = os.getcwd()
    os.chdir(sbx.root)
    dst_real = sbx.dst
    try:
        if entry == "extractall":
            with zipfile.ZipFile(buf) as zf:
                try:
                    nuwiki.extractall(zf, sbx.dst_arg(form))
                except Exception as e:
                    raised = e
        else:
            from mwlib.core import wiki

            zpath = os.path.join(sbx.root, "collection.zip")  # part of neither snapshot: removed below
            with open(zpath, "wb") as f:
                f.write(buf.getvalue())
            old_tmp = tempfile.tempdir
            tempfile.tempdir = sbx.dst
            try:
                try:
                    wiki.make_wiki(zpath)
                except Exception as e:
                    raised = e
            finally:
                tempfile.tempdir = old_tmp
                os.remove(zpath)
            made = os.listdir(sbx.dst)
            stray = [x for x in made if not (x.startswith("tmp") and os.path.isdir(os.path.join(sbx.dst, x)))]
            if stray:
                ctx.fail("wrote-outside-destination:" + entry, case, "next to the temporary extraction directory: %r (raised=%r)" % (stray, raised))
            dst_real = os.path.join(sbx.dst, ([x for x in made if x.startswith("tmp")] + ["tmpZ"])[0])
    finally:
        os.chdir(cwd)
    after = sbx.snapshot()
    esc = [n for n in members if escapes(n, dst_real)]
    if getattr(sbx, "dirty", False):
        base = sbx.base
        sbx.dirty = False
        if after != base:
            diff = sorted(set(after.items()) ^ set(base.items()))[:6]
            ctx.fail("wrote-outside-destination:after-earlier-extraction", case, "changed outside %s: %r (raised=%r)" % (dst_real, diff, raised))
        elif esc and raised is None:
            ctx.fail("escaping-member-accepted", case, "members %r escape lexically but the extraction returned normally" % esc)
        sbx.reset()
        return raised is not None, bool(esc)
    if after != sbx.base:
        diff = sorted(set(after.items()) ^ set(sbx.base.items()))[:6]
        ctx.fail("wrote-outside-destination", case, "changed outside %s: %r (raised=%r)" % (sbx.dst, diff, raised))
        sbx.reset()
    elif esc and raised is None:
        ctx.fail("escaping-member-accepted", case, "members %r escape lexically but extractall returned normally" % esc)
    sbx.clean_dst()
    return raised is not None, bool(esc)


def nontrivial_members(members):
    for n in members:
        cs = n.replace("\\", "/").split("/")
        if n.startswith("/") or ".." in cs or "destx" in cs:
            return True
    return False


def replay(ctx, case):
    sbx = Sandbox(ctx.workdir if os.path.isdir(ctx.workdir) else "/tmp")
    members = [m.replace("<ROOT>", sbx.root) for m in case["members"]]
    run_case(ctx, sbx, members, case["dst_form"], case)
    shutil.rmtree(sbx.root, ignore_errors=True)


def run_shard(ctx):
    base = os.path.join(ctx.workdir, "c15-%02d" % ctx.shard)
    os.makedirs(base, exist_ok=True)
    sbx = Sandbox(base)
    maxdepth = 5 if ctx.thorough else 4
    # (1) exhaustive single-member archives, split round-robin over shards
    idx = 0
    evals = nontriv = rejected = 0
    for depth in range(1, maxdepth + 1):
        for comps in itertools.product(COMPONENTS, repeat=depth):
            for seps in itertools.product("/\\", repeat=depth - 1):
                for absolute in (False, True):
                    for trailing in (False, True):
                        idx += 1
                        if idx % ctx.nshards != ctx.shard:
                            continue
                        name = member_name(sbx, comps, seps, absolute, trailing)
                        if not name or name == "/":
                            continue
                        shown = name.replace(sbx.root, "<ROOT>")
                        case = dict(members=[shown], dst_form="abs")
                        r, esc = run_case(ctx, sbx, [name], "abs", case)
                        evals += 1
                        rejected += r
                        nt = nontrivial_members([name])
                        nontriv += nt
                        if nt and evals % 997 == 0 and len(ctx.samples.get("exhaustive", [])) < 2:
                            ctx.samples.setdefault("exhaustive", []).append(dict(case, rejected=r, escaping=esc))
        ctx.exhaustive.append("all single-member archives of depth %d" % depth)
    ctx.record_bulk(evals, nontriv, {"exhaustive": evals, "nontrivial": nontriv, "rejected": rejected})

    # (2) multi-member archives x destination spellings
    comp = st.sampled_from(COMPONENTS)

    @st.composite
    def member(draw):
        comps = draw(st.lists(comp, min_size=1, max_size=5))
        seps = [draw(st.sampled_from(["/", "/", "\\"])) for _ in comps[1:]]
        return comps, seps, draw(st.integers(0, 3)) == 0, draw(st.integers(0, 3)) == 0

    @ctx.settings(ctx.n(6000, 150000))
    @given(st.lists(member(), min_size=1, max_size=5), st.sampled_from(DST_FORMS),
           st.sampled_from(["extractall"] * 4 + ["make_wiki:nuwiki", "make_wiki:multi-nuwiki"]), st.integers(0, 5))
    def t(ms, form, entry, hist):
        names = [member_name(sbx, *m) for m in ms]
        names = [n for n in names if n and n != "/"]
        if not names:
            names = ["a"]
        shown = [n.replace(sbx.root, "<ROOT>") for n in names]
        case = dict(members=shown, dst_form=form)
        if entry != "extractall":
            case["entry"] = entry
            case["dst_form"] = form = "abs"
        if hist == 0:
            case["history"] = True
        ctx.announce(case)
        r, esc = run_case(ctx, sbx, names, form, case)
        nt = nontrivial_members(names)
        labels = ["multi", "dst:" + form, "rejected" if r else "accepted", "entry:" + entry] + (["after-earlier-extraction"] if case.get("history") else [])
        if nt:
            labels.append("nontrivial")
        if esc:
            labels.append("escaping")
        ctx.record(jdump(case), labels, nt, sample=dict(case, rejected=r, escaping=esc))

    ctx.run_given(t)
    shutil.rmtree(base, ignore_errors=True)
