"""C13 - metabooks round-trip through JSON and identify collections deterministically."""
import copy
import json

from hypothesis import given, strategies as st

from ..ctx import jdump

META = dict(
    level="exploration",
    rule=(
        "Hypothesis draws a metabook as a JSON tree (0-8 items; chapters incl. empty and consecutive ones, nested articles, "
        "optional collection/article fields, unknown extra attributes, Unicode titles, wikis/licenses lists), a spelling "
        "(key order, indent/separators, ensure_ascii) and a request (base_url, script_extension, login, writer). Oracles: "
        "source attributes survive loads; loads(dumps(x)) == x on the plain trees; dumps is a fixed point; no two loaded or "
        "constructed objects share a list; collection ids (nserve and serve) equal under re-spelling / writer change and "
        "different under each single-field mutation. Non-trivial: >= 1 chapter holding >= 1 article and >= 1 optional field set."
    ),
    assumptions=[
        "null-valued and absent attributes are treated as the same metabook (the encoder drops None by design)",
        "titles within one metabook are distinct, so that swapping two items or renaming one is a real difference",
        "the simplejson/json parser itself is trusted for re-spelling (spellings are produced by the stdlib encoder)",
    ],
    floors={"nontrivial": (0.25, None), "mut:order": (0.05, None), "plain-nested-dict": (0.20, None)},
)

text = st.text(st.characters(blacklist_categories=("Cs",)), max_size=12)
title = st.one_of(st.sampled_from(["Physik", "Mathematik", "Äpfel & Birnen", "日本", "a/b", "x\"y", "C++"]), text)
opt = lambda s: st.one_of(st.none(), s)  # noqa


# type-less JSON objects (e.g. the "settings" object real requests carry): their key order must not matter either
plain_dict = st.dictionaries(st.sampled_from(["papersize", "toc", "columns", "b", "a", "zz"]),
                             st.one_of(st.integers(0, 9), st.sampled_from(["a4", "yes"]),
                                       st.dictionaries(st.sampled_from(["x", "y", "k"]), st.integers(0, 3), min_size=2)),
                             min_size=2, max_size=4)


@st.composite
def article(draw, n):
    d = {"type": draw(st.sampled_from(["article", "article", "Article"])), "title": "T%d %s" % (n, draw(title))}
    if draw(st.booleans()):
        d["revision"] = draw(st.one_of(st.integers(1, 10 ** 9).map(str), st.integers(1, 10 ** 9)))
    if draw(st.booleans()):
        d["displaytitle"] = draw(title)
    if draw(st.integers(0, 3)) == 0:
        d["wikiident"] = draw(st.sampled_from(["enwiki", "dewiki", "w"]))
    if draw(st.integers(0, 3)) == 0:
        d["content_type"] = draw(st.sampled_from(["text/x-wiki", "text/html"]))
    if draw(st.integers(0, 3)) == 0:
        d["x_custom"] = draw(st.one_of(text, st.integers(), st.lists(st.integers(), max_size=3), st.booleans(), plain_dict))
    return d


@st.composite
def metabook(draw):
    counter = [0]

    def art():
        counter[0] += 1
        return draw(article(counter[0]))

    items = []
    for _ in range(draw(st.integers(0, 8))):
        if draw(st.integers(0, 2)) == 0:
            counter[0] += 1
            ch = {"type": "chapter", "title": "Ch%d %s" % (counter[0], draw(title))}
            k = draw(st.integers(0, 3))
            if k or draw(st.booleans()):
                ch["items"] = [art() for _ in range(k)]
            items.append(ch)
        else:
            items.append(art())
    mb = {"type": "collection", "items": items}
    if draw(st.booleans()):
        mb["version"] = 1
    for k in ("title", "subtitle", "editor", "summary", "description", "sort_as", "cover_image"):
        if draw(st.integers(0, 3)) == 0:
            mb[k] = draw(title)
    if draw(st.integers(0, 7)) == 0:
        # a big book (the request text exceeds 32 KiB / 64 KiB): size-dependent paths such as caches for large requests
        mb["summary"] = (mb.get("summary") or "s") + " lorem ipsum" * draw(st.sampled_from([3000, 6000]))
    if draw(st.integers(0, 2)) == 0:
        mb["settings"] = draw(plain_dict)
    if draw(st.integers(0, 3)) == 0:
        mb["licenses"] = [{"type": "license", "title": draw(title), "wikitext": draw(text)}
                          for _ in range(draw(st.integers(0, 2)))]
    if draw(st.integers(0, 3)) == 0:
        mb["wikis"] = [{"type": "wikiconf", "baseurl": "http://%d.example/w/" % i, "ident": "w%d" % i}
                       for i in range(draw(st.integers(0, 2)))]
    return mb


def shuffle_keys(draw, x):
    if isinstance(x, dict):
        keys = draw(st.permutations(sorted(x)))
        return {k: shuffle_keys(draw, x[k]) for k in keys}
    if isinstance(x, list):
        return [shuffle_keys(draw, v) for v in x]
    return x


@st.composite
def spelling(draw, mb):
    t = shuffle_keys(draw, mb)
    indent = draw(st.sampled_from([None, None, 0, 1, 4]))
    seps = draw(st.sampled_from([None, (",", ":"), (" , ", " : ")])) if indent is None else None
    return json.dumps(t, indent=indent, separators=seps, ensure_ascii=draw(st.booleans()))


def all_articles(mb):
    out = []
    for it in mb["items"]:
        if it["type"] == "chapter":
            out.extend(("ch", it, a) for a in it.get("items", []))
        else:
            out.append(("top", mb, it))
    return out


@st.composite
def mutation(draw, mb):
    """Returns (kind, mutated copy) differing in exactly one respect, or None if not applicable."""
    m = copy.deepcopy(mb)
    arts = all_articles(m)
    kinds = ["add"]
    if arts:
        kinds += ["remove", "revision", "title"]
    if len(m["items"]) >= 2:
        kinds.append("order")
    kind = draw(st.sampled_from(kinds))
    if kind == "add":
        new = {"type": "article", "title": "NEW " + draw(title)}
        tgt = draw(st.sampled_from([m] + [it for it in m["items"] if it["type"] == "chapter"]))
        tgt.setdefault("items", []).insert(draw(st.integers(0, len(tgt.get("items", [])))), new)
    elif kind == "remove":
        _, parent, a = draw(st.sampled_from(arts))
        parent["items"] = [x for x in parent["items"] if x is not a]
    elif kind == "revision":
        _, _, a = draw(st.sampled_from(arts))
        old = a.get("revision")
        a["revision"] = "77" if old is None else (str(int(old) + 1) if isinstance(old, str) else old + 1)
    elif kind == "title":
        _, _, a = draw(st.sampled_from(arts))
        a["title"] = a["title"] + draw(st.sampled_from(["x", " ", "é", "_"]))
    elif kind == "order":
        i = draw(st.integers(0, len(m["items"]) - 2))
        m["items"][i], m["items"][i + 1] = m["items"][i + 1], m["items"][i]
    return kind, m


@st.composite
def cases(draw):
    mb = draw(metabook())
    req = {"base_url": draw(st.sampled_from(["http://en.wikipedia.org/w/", "https://de.wikipedia.org/w/", "http://x/"])),
           "writer": draw(st.sampled_from(["rl", "odf"]))}
    if draw(st.booleans()):
        req["script_extension"] = draw(st.sampled_from([".php", ".php5"]))
    if draw(st.integers(0, 3)) == 0:
        req["login_credentials"] = "u:p"
    return dict(mb=mb, spell_a=draw(spelling(mb)), spell_b=draw(spelling(mb)), req=req, mutation=draw(mutation(mb)),
                url_b=draw(st.sampled_from(["http://en.wikipedia.org/w", "http://other/", "HTTP://x/"])))


def to_plain(x):
    if hasattr(x, "_json"):
        return {k: to_plain(v) for k, v in x._json().items()}
    if isinstance(x, dict):
        return {k: to_plain(v) for k, v in x.items()}
    if isinstance(x, (list, tuple)):
        return [to_plain(v) for v in x]
    return x


CANON = {"collection": "Collection", "article": "Article", "chapter": "Chapter", "license": "License", "wikiconf": "WikiConf"}


def source_retained(src, plain, path="$"):
    """every non-null attribute of the source must be in the loaded object, same order/nesting"""
    if isinstance(src, dict):
        if not isinstance(plain, dict):
            return "%s: object became %r" % (path, type(plain).__name__)
        for k, v in src.items():
            if v is None:
                continue
            if k == "type":
                if plain.get("type") != CANON.get(str(v).lower(), v):
                    return "%s.type: %r became %r" % (path, v, plain.get("type"))
                continue
            if k not in plain:
                return "%s.%s lost" % (path, k)
            r = source_retained(v, plain[k], path + "." + k)
            if r:
                return r
        return None
    if isinstance(src, list):
        if not isinstance(plain, list) or len(src) != len(plain):
            return "%s: list of %d became %r" % (path, len(src), plain if not isinstance(plain, list) else len(plain))
        for i, (a, b) in enumerate(zip(src, plain)):
            r = source_retained(a, b, "%s[%d]" % (path, i))
            if r:
                return r
        return None
    if src != plain or type(src) is not type(plain):
        return "%s: %r became %r" % (path, src, plain)
    return None


def shared_lists(obj):
    seen = {}
    stack = [("$", obj)]
    while stack:
        path, o = stack.pop()
        d = getattr(o, "__dict__", None)
        if d is None:
            continue
        for k, v in d.items():
            if isinstance(v, list):
                if id(v) in seen:
                    return "%s.%s is the same list object as %s" % (path, k, seen[id(v)])
                seen[id(v)] = "%s.%s" % (path, k)
                for i, c in enumerate(v):
                    stack.append(("%s.%s[%d]" % (path, k, i), c))
    return None


def check(ctx, case):
    from mwlib.core import metabook as mbmod, nserve, serve
    from mwlib.utils import myjson

    small = dict(case)

    def F(bucket, detail):
        ctx.fail(bucket, small, detail)

    try:
        a = myjson.loads(case["spell_a"])
        b = myjson.loads(case["spell_b"])
    except Exception as e:
        return F("exception:loads:%s" % type(e).__name__, repr(e))
    pa, pb = to_plain(a), to_plain(b)
    r = source_retained(case["mb"], pa)
    if r:
        F("load:source-attribute-not-retained", r)
    if pa != pb:
        F("load:spelling-dependent", "%r vs %r" % (pa, pb))
    # round trip and fixed point
    try:
        d1 = myjson.dumps(a)
        a2 = myjson.loads(d1)
        d2 = myjson.dumps(a2)
        cd1 = a.dumps()
        cd2 = myjson.loads(cd1).dumps()
    except Exception as e:
        return F("exception:roundtrip:%s" % type(e).__name__, repr(e))
    if to_plain(a2) != pa:
        F("roundtrip:not-equal", "%r vs %r" % (to_plain(a2), pa))
    if json.loads(d1) != json.loads(d2) or cd1 != cd2:
        F("roundtrip:not-fixed-point", "%r vs %r" % (cd1[:300], cd2[:300]))
    # key order of items preserved
    if [to_plain(x).get("title") for x in a.items] != [x.get("title") for x in case["mb"]["items"]]:
        F("load:item-order", "items re-ordered")
    # no shared lists between loaded objects
    r = shared_lists(a)
    if r:
        F("sharing:loaded-objects-share-a-list", r)
    # ... nor between constructed ones
    c1, c2 = mbmod.Collection(), mbmod.Collection()
    c1.items.append(mbmod.Chapter(title="one"))
    c1.append_article("A")
    c1.items.append(mbmod.Chapter(title="two"))
    c1.append_article("B")
    c1.append_article("C")
    got = [(getattr(i, "title", None), [x.title for x in getattr(i, "items", [])]) for i in c1.items]
    if got != [("one", ["A"]), ("two", ["B", "C"])] or c2.items or mbmod.Collection.items or mbmod.Chapter.items:
        F("sharing:append_article-leaks", "c1=%r c2.items=%r class items=%r/%r" % (got[:6], c2.items[:6], mbmod.Collection.items[:6], mbmod.Chapter.items[:6]))
        del mbmod.Collection.items[:], mbmod.Chapter.items[:]  # keep the leak from growing across cases
    # collection ids
    req = case["req"]
    for name, fn in (("nserve", nserve.make_collection_id), ("serve", serve.make_collection_id)):
        try:
            ida = fn(dict(req, metabook=case["spell_a"]))
            ida2 = fn(dict(req, metabook=case["spell_a"]))
            idb = fn(dict(req, metabook=case["spell_b"]))
            idr = fn(dict(req, metabook=cd1))
            idw = fn(dict(req, metabook=case["spell_a"], writer="odf" if req["writer"] == "rl" else "rl"))
            kind, mut = case["mutation"]
            idm = fn(dict(req, metabook=json.dumps(mut)))
            idu = fn(dict(req, metabook=case["spell_a"], base_url=case["url_b"]))
        except Exception as e:
            F("exception:id:%s:%s" % (name, type(e).__name__), repr(e))
            continue
        if ida != ida2:
            F("id:%s:not-pure" % name, "%s vs %s" % (ida, ida2))
        if ida != idb:
            F("id:%s:depends-on-spelling" % name, "%s vs %s for %r / %r" % (ida, idb, case["spell_a"][:200], case["spell_b"][:200]))
        if ida != idr:
            F("id:%s:depends-on-reserialisation" % name, "%s vs %s" % (ida, idr))
        if ida != idw:
            F("id:%s:depends-on-writer" % name, "%s vs %s" % (ida, idw))
        if ida == idm:
            F("id:%s:blind-to-%s" % (name, kind), "same id %s for %r and mutated %r" % (ida, case["mb"], mut))
        if ida == idu and case["url_b"] != req["base_url"]:
            F("id:%s:blind-to-base_url" % name, "same id %s for %r and %r" % (ida, req["base_url"], case["url_b"]))
        if not (isinstance(ida, str) and len(ida) == 16):
            F("id:%s:shape" % name, repr(ida))


def replay(ctx, case):
    case = dict(case)
    case["mutation"] = tuple(case["mutation"])
    check(ctx, case)


FUZZ_IMPORTS = ['mwlib.core.metabook', 'mwlib.utils.myjson']


def run_shard(ctx):
    @ctx.settings(ctx.n(8000, 240000))
    @given(cases())
    def t(case):
        mb = case["mb"]
        chapters = [i for i in mb["items"] if i["type"] == "chapter"]
        arts = all_articles(mb)
        optset = any(k in mb for k in ("title", "subtitle", "editor", "summary")) or any(
            len(a[2]) > 2 for a in arts)
        nt = any(c.get("items") for c in chapters) and optset
        labels = ["mut:" + case["mutation"][0], "items:%d" % min(len(mb["items"]), 4)]
        if len(case["spell_a"]) >= 32768:
            labels.append("big-book")
        if nt:
            labels.append("nontrivial")
        if "settings" in mb or any(isinstance(a[2].get("x_custom"), dict) for a in arts):
            labels.append("plain-nested-dict")
        if any(not c.get("items") for c in chapters):
            labels.append("empty-chapter")
        if any(ord(ch) > 127 for ch in case["spell_a"]):
            labels.append("raw-unicode")
        ctx.announce(case)
        ctx.record(case["spell_a"] + "|" + jdump(case["req"]), labels, nt,
                   sample=dict(metabook=case["spell_a"][:400], request=case["req"], mutation=case["mutation"][0]))
        check(ctx, case)

    ctx.run_given(t)
    ctx.fuzz_campaign("", (0, 320000))
