"""C02 - well-formed markup parses to the structure it denotes, text intact and in order."""
from hypothesis import given

from ..ctx import jdump, repo_frame_bucket
from ..models import treeproj as T
from . import _doc

META = dict(
    level="exploration",
    rule=(
        "A recursive grammar (driven by Hypothesis' st.randoms) produces documents as wikitext TOGETHER WITH the expected sequence of "
        "(unique word, ancestor chain): sections of level 2-5 with level jumps, paragraphs, nested * / # lists to depth 3, HTML lists, "
        "wiki and HTML tables with captions, header rows, row/cell attributes, lists and nested tables in cells, ';t : d' and ';t\\n:d' "
        "definition lists, ':' indents, preformatted lines, 16 inline styles in wiki and HTML spelling, ''''', captioned / bare / "
        "namespaced links with localized namespace names, external links, named refs; blank-line and whitespace variants; 12 site "
        "languages. After parse_string + build_advanced_tree the (word, chain) sequence read off the tree must equal the expected one: "
        "nothing dropped, duplicated, re-ordered, and every word under exactly the denoted ancestors (projection onto Section(level), "
        "Heading, ItemList(kind), Item, DefinitionTerm/Description, Table, Caption, Row, Cell(header|data), style classes as a multiset, "
        "link class + target, Reference, PreFormatted). Non-trivial: >= 2 block kinds and a nesting of depth >= 2."
    ),
    assumptions=[
        "apostrophe runs are generated only in balanced, unambiguous forms; <h2> is not treated as a spelling of '=='; link targets are unique and free of '#' and '|'",
        "nodes outside the projection (Paragraph, Node, Div, whitespace Text) are ignored - the oracle demands no more than the statement",
    ],
    floors={"nontrivial": (0.5, None), "table": (0.2, None), "nested-list": (0.15, None), "sub-section": (0.08, None), "html-spelling": (0.2, None)},
)


def check(ctx, doc):
    try:
        tree = _doc.parse(doc)
    except Exception as e:
        ctx.fail("exception:" + repo_frame_bucket(e), doc, repr(e))
        return
    exp = [(w, T.norm(tuple(c))) for w, c in doc["expected"]]
    obs = [(w, T.norm(c)) for w, c in T.observed(tree)]
    if exp == obs:
        return
    ew, ow = [w for w, _ in exp], [w for w, _ in obs]
    if ew != ow:
        lost = [w for w in ew if w not in ow]
        dup = sorted({w for w in ow if ow.count(w) > 1})
        kind = "word-lost" if lost else "word-duplicated" if dup else "word-order-changed"
        where = ""
        d = dict(exp)
        probe = (lost or dup or [w for a, w in zip(ew, ow) if a != w])[:1]
        if probe and probe[0] in d:
            where = ":" + "/".join(x.split(":")[0] for x in d[probe[0]] if not x.startswith("Sec"))[:60]
        ctx.fail("text:" + kind + where, doc, "lost %r duplicated %r; expected order %r, found %r" % (lost[:5], dup[:5], ew[:12], ow[:12]))
        return
    a, b = [(a, b) for a, b in zip(exp, obs) if a != b][0]
    diff = tuple(sorted(set(a[1]) ^ set(b[1])))
    ctx.fail("structure:wrong-ancestors:" + "+".join(x.split(":")[0] for x in diff)[:80], doc, "word %r: markup denotes %r, tree has %r" % (a[0], a[1], b[1]))


def replay(ctx, case):
    _doc.warmup()
    check(ctx, case)


FUZZ_IMPORTS = ['mwlib.parser.refine.uparser', 'mwlib.parser.refine.core', 'mwlib.parser.refine.compat', 'mwlib.parser.expander', 'mwlib.parser.refine.parse_table', 'mwlib.parser.refine.tagparser', 'mwlib.parser.styleanalyzer', 'mwlib.parser.nodes', 'mwlib.parser.advtree']


def run_shard(ctx):
    _doc.warmup()
    @ctx.settings(ctx.n(24000, 240000))
    @given(_doc.documents())
    def t(doc):
        ctx.announce(doc)
        labels, nt = _doc.doc_labels(doc)
        if nt:
            labels.append("nontrivial")
        check(ctx, doc)
        ctx.record(doc["lang"] + doc["src"], labels, nt, sample=dict(lang=doc["lang"], src=doc["src"][:600], words=len(doc["expected"])))

    ctx.run_given(t)
    ctx.fuzz_campaign("", (0, 160000))
