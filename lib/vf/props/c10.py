"""C10 - tokenization tiles the input (DESIGN.md section 2, C10)."""
import hashlib
import itertools
import os
import shutil
import subprocess
import sysconfig

from hypothesis import given, strategies as st

from .. import build
from ..ctx import HarnessError, jdump
from ..gens.scanlex import SCAN_CORE, SCAN_LEXEMES

META = dict(
    level="exploration",
    rule=(
        "(1) exhaustive: every concatenation of <= 3 lexemes from the %d-entry scanner lexeme table and of 4 lexemes from a "
        "%d-entry core table (thorough: <= 4 over the full table), de-duplicated by resulting string; (2) Hypothesis: lists of "
        "up to 400 items mixing lexemes with arbitrary Unicode scalar values (non-BMP, NUL, U+EBAD, U+007F); (3) native "
        "libFuzzer target that #includes the working tree's _uscan.cc under ASan+UBSan with the same tiling oracle in C++. "
        "Non-trivial: >= 3 tokens of >= 2 types; distinct = distinct input strings (native executions are reported in notes, "
        "not in distinct_nontrivial)." % (len(SCAN_LEXEMES), len(SCAN_CORE))
    ),
    assumptions=[
        "_uscan.cc (tracked re2c output) is the scanner source; _uscan.re cannot be regenerated here (re2c absent)",
        "tokens may cover U+EBAD inside URL/tag/comment spans; only uncovered characters must all be U+EBAD",
        "inputs are sequences of Unicode scalar values (no lone surrogates)",
    ],
    floors={"nontrivial": (0.30, None)},
)

KNOWN_TYPES = set(range(1, 27))


def tiling_violation(text, tokens):
    """Independent statement of the property. Returns (bucket, detail) or None."""
    end = text.find("\x00")
    if end < 0:
        end = len(text)
    pos = 0
    for i, tok in enumerate(tokens):
        try:
            typ, start, ln = tok
        except Exception:
            return "shape", "token %d is %r" % (i, tok)
        if ln <= 0:
            return "empty-token", "token %d = %r" % (i, tok)
        if typ not in KNOWN_TYPES:
            return "unknown-type", "token %d = %r" % (i, tok)
        if start < pos:
            return "overlap-or-disorder", "token %d = %r starts before %d" % (i, tok, pos)
        gap = text[pos:start]
        if gap.strip(""):
            return "gap-not-ebad", "characters %r at %d..%d not covered" % (gap, pos, start)
        pos = start + ln
        if pos > end:
            return "past-end", "token %d = %r ends after %d" % (i, tok, end)
    tail = text[pos:end]
    if tail.strip(""):
        return "tail-not-covered", "characters %r at %d..%d not covered" % (tail, pos, end)
    return None


def check_text(ctx, text, scan, record=True):
    try:
        tokens = scan(text)
    except Exception as e:
        ctx.fail("exception:%s" % type(e).__name__, dict(text=text), repr(e))
        return None
    v = tiling_violation(text, tokens)
    if v:
        ctx.fail("tiling:" + v[0], dict(text=text), "%s; tokens=%r" % (v[1], tokens[:40]))
    return tokens


def replay(ctx, case):
    from mwlib.parser.token import utoken

    if "text" in case:
        check_text(ctx, case["text"], utoken.scan)
    if "fuzz_hex" in case:
        exe = build_native(ctx)
        p = os.path.join(ctx.workdir, "replay-input")
        with open(p, "wb") as f:
            f.write(bytes.fromhex(case["fuzz_hex"]))
        r = subprocess.run([exe, p], capture_output=True, text=True, preexec_fn=_unlimit_as)
        if r.returncode != 0:
            ctx.fail("native:" + _native_bucket(r.stderr), case, r.stderr[-1500:])


# ---------------------------------------------------------------------------------------
def build_native(ctx=None):
    src = os.path.join(build.SRC, "mwlib/parser/token/_uscan.cc")
    target = os.path.join(build.VERIF, "native", "uscan_fuzz.cc")
    h = hashlib.sha256()
    for p in (src, target):
        with open(p, "rb") as f:
            h.update(f.read())
    h.update(jdump(SCAN_LEXEMES).encode())
    outdir = os.path.join(build.CACHE, "fuzz-" + h.hexdigest()[:20])
    exe = os.path.join(outdir, "uscan_fuzz")
    if os.path.exists(exe):
        return exe
    if not shutil.which("clang++"):
        raise HarnessError("clang++ not found: cannot build the native scanner fuzz target")
    tmp = outdir + ".tmp%d" % os.getpid()
    shutil.rmtree(tmp, ignore_errors=True)
    os.makedirs(tmp)
    lex = [l for l in SCAN_LEXEMES]
    width = max(len(l) for l in lex) + 1
    with open(os.path.join(tmp, "lexemes.h"), "w") as f:
        f.write("#include <Python.h>\n#define NLEX %d\n" % len(lex))
        f.write("static const int LEXLEN[NLEX] = {%s};\n" % ",".join(str(len(l)) for l in lex))
        f.write("static const Py_UCS4 LEX[NLEX][%d] = {\n" % width)
        for l in lex:
            f.write("  {%s},\n" % ",".join(str(ord(c)) for c in l.ljust(width, "\0")))
        f.write("};\n")
    inc = sysconfig.get_paths()["include"]
    libdir = sysconfig.get_config_var("LIBDIR")
    cmd = ["clang++", "-g", "-O1", "-fsanitize=fuzzer,address,undefined", "-fno-sanitize-recover=undefined",
           "-w", "-I", inc, "-I", tmp, "-include", "lexemes.h", '-DUSCAN_CC="%s"' % src, target,
           "-L", libdir, "-lpython3.12", "-Wl,-rpath," + libdir, "-o", os.path.join(tmp, "uscan_fuzz")]
    r = subprocess.run(cmd, capture_output=True, text=True)
    if r.returncode != 0:
        shutil.rmtree(tmp, ignore_errors=True)
        raise HarnessError("native fuzz target does not build:\n" + r.stderr[-3000:])
    os.makedirs(outdir, exist_ok=True)
    os.replace(os.path.join(tmp, "uscan_fuzz"), exe)
    shutil.rmtree(tmp, ignore_errors=True)
    return exe


def _native_bucket(stderr):
    for line in stderr.splitlines():
        if line.startswith("TILING-VIOLATION"):
            return "tiling:" + line.split()[1]
        if "ERROR: AddressSanitizer" in line:
            return "asan:" + (line.split("AddressSanitizer")[1].strip(": ").split() or ["?"])[0]
        if "runtime error:" in line:
            return "ubsan:" + line.split("runtime error:")[1].strip()[:40]
    return "crash"


def decode_fuzz_bytes(data):
    out = []
    i = 0
    n = len(SCAN_LEXEMES)
    while i < len(data):
        b = data[i]
        if b < 200:
            out.append(SCAN_LEXEMES[b % n])
        elif i + 2 < len(data):
            c = (b - 200) << 16 | data[i + 1] << 8 | data[i + 2]
            c = min(c, 0x10FFFF)
            if 0xD800 <= c <= 0xDFFF:
                c = 0xE000
            out.append(chr(c))
            i += 2
        i += 1
    return "".join(out)


def _unlimit_as():
    import resource

    hard = resource.getrlimit(resource.RLIMIT_AS)[1]
    resource.setrlimit(resource.RLIMIT_AS, (hard, hard))  # ASan reserves terabytes of address space


def run_native(ctx, runs, max_len):
    exe = build_native(ctx)
    work = os.path.join(ctx.workdir, "fuzz%02d" % ctx.shard)
    corpus = os.path.join(work, "corpus")
    os.makedirs(corpus)
    # half of the shards start from an empty corpus, the other half from a few valid snippets
    if ctx.shard % 2:
        for i, seedtxt in enumerate([b"\x09\x00\x0a", b"\x0f\x04\x13\x00\x04\x10", b"\x36\x01\x00", b"\x04\x1f\x01\x04"]):
            with open(os.path.join(corpus, "seed%d" % i), "wb") as f:
                f.write(seedtxt)
    env = dict(os.environ, ASAN_OPTIONS="detect_leaks=0:abort_on_error=0:allocator_may_return_null=1",
               UBSAN_OPTIONS="print_stacktrace=1")
    import tempfile
    import time

    errf = tempfile.TemporaryFile(mode="w+", errors="replace")
    proc = subprocess.Popen([exe, corpus, "-seed=%d" % (ctx.hseed("native") % (2 ** 31 - 1) + 1), "-runs=%d" % runs,
                             "-max_len=%d" % max_len, "-print_final_stats=1", "-artifact_prefix=%s/" % work,
                             "-rss_limit_mb=3000", "-timeout=60"],
                            stdout=subprocess.DEVNULL, stderr=errf, env=env, preexec_fn=_unlimit_as)
    while proc.poll() is None:
        ctx.heartbeat()
        time.sleep(2)
    errf.seek(0)

    class r:  # noqa: N801
        returncode = proc.returncode
        stderr = errf.read()[-200000:]

    execs = 0
    for line in r.stderr.splitlines():
        if line.startswith("stat::number_of_executed_units:"):
            execs = int(line.split(":")[-1])
    ctx.note("native_executions", execs)
    ctx.note("native_corpus_files", len(os.listdir(corpus)))
    if r.returncode != 0:
        arts = [f for f in os.listdir(work) if f.startswith(("crash-", "timeout-", "oom-", "leak-"))]
        data = b""
        if arts:
            with open(os.path.join(work, arts[0]), "rb") as f:
                data = f.read()
        case = dict(fuzz_hex=data.hex(), text=decode_fuzz_bytes(data))
        ctx.fail("native:" + _native_bucket(r.stderr), case, r.stderr[-2500:])
    shutil.rmtree(work, ignore_errors=True)


def prepare():
    build_native()


# ---------------------------------------------------------------------------------------
def run_shard(ctx):
    from mwlib.parser.token import utoken

    scan = utoken.scan
    # (1) exhaustive, partitioned by string hash so that each distinct string is scanned by exactly one shard
    plans = [(SCAN_LEXEMES, k) for k in (0, 1, 2, 3)]
    plans.append((SCAN_LEXEMES if ctx.thorough else SCAN_CORE, 4))
    seen = set()
    evals = nontriv = 0
    sample_every = 9973
    for table, k in plans:
        for seq in itertools.product(table, repeat=k):
            text = "".join(seq)
            hv = hash(text)
            if hv % ctx.nshards != ctx.shard or hv in seen:
                continue
            seen.add(hv)
            evals += 1
            if evals % 4096 == 0:
                ctx.announce(dict(text=text))
            toks = check_text(ctx, text, scan)
            if toks is not None and len(toks) >= 3 and len({t[0] for t in toks}) >= 2:
                nontriv += 1
                if nontriv % sample_every == 1 and len(ctx.samples.get("exhaustive", [])) < 2:
                    ctx.samples.setdefault("exhaustive", []).append(dict(text=text, tokens=toks))
        ctx.exhaustive.append("all concatenations of %d lexemes from the %d-entry table" % (k, len(table)))
    ctx.record_bulk(evals, nontriv, {"exhaustive": evals, "nontrivial": nontriv})
    del seen

    # (2) long random texts
    item = st.one_of(
        st.sampled_from(SCAN_LEXEMES),
        st.sampled_from(SCAN_LEXEMES),
        st.characters(blacklist_categories=("Cs",)),
        st.sampled_from(["", "\x00", "\x7f", "\n", " ", "|", "="]),
        st.text(st.characters(blacklist_categories=("Cs",)), max_size=8),
    )

    @ctx.settings(ctx.n(16000, 800000))
    @given(st.lists(item, max_size=400))
    def t(items):
        text = "".join(items)
        ctx.announce(dict(text=text))
        toks = check_text(ctx, text, scan)
        nt = toks is not None and len(toks) >= 3 and len({t[0] for t in toks}) >= 2
        labels = ["random"]
        if nt:
            labels.append("nontrivial")
        if "" in text:
            labels.append("has-ebad")
        if "\x00" in text:
            labels.append("has-nul")
        if any(ord(c) > 0xFFFF for c in text):
            labels.append("non-bmp")
        ctx.record(text, labels, nt, sample=dict(text=text[:200], ntokens=len(toks or [])))

    ctx.run_given(t)

    # (3) native target under ASan/UBSan
    if ctx.thorough:
        run_native(ctx, runs=6000000, max_len=512)
    elif ctx.shard < 8:
        run_native(ctx, runs=150000, max_len=256)
