"""C12 - title normalization is canonical and idempotent (DESIGN.md section 2, C12)."""
import copy
import re
import unicodedata

from hypothesis import given, strategies as st

from ..ctx import jdump

META = dict(
    level="exploration",
    rule=(
        "Hypothesis draws (site of 12 bundled siteinfos x {as shipped, case flipped}, namespace entry = "
        "local/canonical/alias name or none, remainder of 1-12 code points, default namespace, two independent "
        "spellings built from ops {case of namespace letters, '_'/blank/blank runs, blanks around ':', edge blanks, "
        "LRM/RLM at the edges, leading ':'}); laws L1-L4 are checked on both spellings. A case is non-trivial when "
        "a spelling differs from the canonical form in >= 2 op classes; distinct = distinct (site, spelling, defaultns)."
    ),
    assumptions=[
        "remainders do not start with ':' or a blank/mark (MediaWiki-legal shape); a ':' inside a remainder only follows a "
        "word that is not a namespace name of the site; no '#', '|', '%XX'",
        "one NsHandler per site configuration is shared by all cases of a shard (normalisation must not depend on call history)",
        "a namespace name that two namespaces of one site share (case-insensitively) is skipped, counted in notes",
        "capitalisation of the first letter is accepted as either str.upper() or str.title() of that letter",
        "bidi marks only at the edges of the title / of the remainder (the quantifier's wording)",
    ],
    floors={"nontrivial": (0.30, None), "ns:alias": (0.05, None), "op:marks": (0.10, None), "colon-in-remainder": (0.05, None)},
)

LANGS = "de en es fr it ja nl no pl pt simple sv".split()
MARKS = ["‎", "‏"]

_sites = {}


def site(lang, flipped):
    key = (lang, flipped)
    if key not in _sites:
        from mwlib.core.nshandling import NsHandler
        from mwlib.network.siteinfo import get_siteinfo

        si = copy.deepcopy(get_siteinfo(lang))
        if flipped:
            cur = si["general"].get("case")
            si["general"]["case"] = "case-sensitive" if cur == "first-letter" else "first-letter"
        names = {}  # lower name -> set(ids)
        entries = []
        for ns in si["namespaces"].values():
            if ns["*"]:
                entries.append(("local", ns["id"], ns["*"]))
            if ns.get("canonical"):
                entries.append(("canonical", ns["id"], ns["canonical"]))
        for a in si.get("namespacealiases", []):
            entries.append(("alias", a["id"], a["*"]))
        for _, nid, nm in entries:
            names.setdefault(nm.lower().replace("_", " "), set()).add(nid)
        entries = sorted(set(e for e in entries))
        ok = [e for e in entries if len(names[e[2].lower().replace("_", " ")]) == 1 and ":" not in e[2]]
        nonns = [p for p in COLON_PREFIXES if p.lower() not in names]
        _sites[key] = (NsHandler(si), si, ok, len(entries) - len(ok), nonns)
    return _sites[key]


remainder_chars = st.one_of(
    st.sampled_from(list("abcxyzABC0129-./() ") + ["ß", "ǆ", "é", "ö", "Ö", "İ", "ı", "日", "本", "я", "Я", "ǅ", "ﬁ"]),
    st.characters(whitelist_categories=("Lu", "Ll", "Lt", "Lo", "Nd"), max_codepoint=0x2FFFF),
)


COLON_PREFIXES = ["Re", "star trek", "2001", "x", "Ab-c", "Zz top"]


@st.composite
def remainders(draw, nonns_prefixes=()):
    cs = draw(st.lists(remainder_chars, min_size=1, max_size=12))
    s = "".join(cs)
    s = re.sub(r" +", " ", s).strip(" ")
    if not s:
        s = draw(st.sampled_from(["a", "Z", "ß", "9"]))
    if nonns_prefixes and draw(st.integers(0, 5)) == 0:
        # a colon that does not follow a namespace name is part of the title ("Star Trek: Voyager", "Re:Zero");
        # drawn from a small pool so that the same prefix recurs on one handler under different default namespaces
        s = draw(st.sampled_from(nonns_prefixes)) + draw(st.sampled_from([":", ": "])) + draw(st.sampled_from(["Zero", "voyager", s]))
    return s


@st.composite
def spelling(draw, nsname, rem):
    """Returns (text, ops) - one spelling of (nsname or None, rem)."""
    ops = set()

    def blanks(s):
        out = []
        for c in s:
            if c == " ":
                r = draw(st.sampled_from([" ", " ", "_", "  ", "_ ", " _", "__", "   "]))
                if r != " ":
                    ops.add("blank")
                out.append(r)
            else:
                out.append(c)
        return "".join(out)

    parts = []
    if nsname is not None:
        cased = []
        for c in nsname:
            mode = draw(st.integers(0, 3))
            u, l = c.upper(), c.lower()
            safe = len(u) == 1 and len(l) == 1 and u.lower() == l and l.upper().lower() == l
            if mode == 1 and safe and u != c:
                cased.append(u)
                ops.add("case")
            elif mode == 2 and safe and l != c:
                cased.append(l)
                ops.add("case")
            else:
                cased.append(c)
        parts.append(blanks("".join(cased)))
        colon = draw(st.sampled_from([":", ":", " :", ": ", " : ", "_:_", ":  "]))
        if colon != ":":
            ops.add("colon-blank")
        parts.append(colon)
        lead_rem_mark = draw(st.sampled_from(["", "", ""] + MARKS))
        if lead_rem_mark:
            ops.add("marks")
            ops.add("marks-after-colon")
        parts.append(lead_rem_mark)
    parts.append(blanks(rem))
    s = "".join(parts)
    # edges: blanks and marks, in any mixture
    for side in (0, 1):
        edge = "".join(draw(st.lists(st.sampled_from([" ", "_", "  "] + MARKS), max_size=3)))
        if edge:
            if any(m in edge for m in MARKS):
                ops.add("marks")
            if " " in edge or "_" in edge:
                ops.add("edge-blank")
            s = edge + s if side == 0 else s + edge
    colon = draw(st.sampled_from(["", "", "", ":", " :", ": "]))
    if colon:
        ops.add("leading-colon")
        s = colon + s
    return s, sorted(ops)


@st.composite
def cases(draw):
    lang = draw(st.sampled_from(LANGS))
    flipped = draw(st.booleans())
    _, _, entries, _, nonns = site(lang, flipped)
    use_ns = draw(st.integers(0, 4))
    ent = draw(st.sampled_from(entries)) if use_ns else None
    rem = draw(remainders(nonns))
    defaultns = draw(st.sampled_from([0, 0, 6, 10, 14]))
    sp = [draw(spelling(ent[2] if ent else None, rem)) for _ in range(2)]
    return dict(lang=lang, flipped=flipped, ent=list(ent) if ent else None, rem=rem, defaultns=defaultns,
                spellings=[s for s, _ in sp], ops=[o for _, o in sp])


def expected(si, ent, rem, defaultns, leading_colon):
    cap = si["general"].get("case") == "first-letter"
    if ent is not None:
        nsid = ent[1]
    elif leading_colon:
        nsid = 0
    else:
        nsid = defaultns
    local = si["namespaces"][str(nsid)]["*"]
    partials = {rem}
    if cap:
        partials = {rem[0].upper() + rem[1:], rem[0].title() + rem[1:]}
    return nsid, local, partials


_calls = {}


class _Collect:
    """stand-in ctx that only collects bucket names"""

    def __init__(self):
        self.buckets = set()

    def fail(self, bucket, case, detail=""):
        self.buckets.add(bucket)


class _Logged:
    def __init__(self, handler, log):
        self.handler, self.log = handler, log

    def splitname(self, text, dns):
        self.log.append([text, dns])
        return self.handler.splitname(text, dns)


def fresh_handler(lang, flipped):
    from mwlib.core.nshandling import NsHandler

    return NsHandler(copy.deepcopy(site(lang, flipped)[1]))


def check(ctx, case):
    """Runs the case on the shard's shared handler (so that dependence on call history can show) and, when it
    fails there but not on a fresh handler, minimises the preceding calls into case['history']."""
    key = (case["lang"], case["flipped"])
    log = _calls.setdefault(key, [])
    before = len(log)
    col = _Collect()
    if case.get("history"):
        h = fresh_handler(*key)
        for text, dns in case["history"]:
            h.splitname(text, dns)
        return check_on(ctx, case, h, site(*key)[1])
    check_on(col, case, _Logged(site(*key)[0], log), site(*key)[1])
    if not col.buckets:
        return
    fresh = _Collect()
    check_on(fresh, case, fresh_handler(*key), site(*key)[1])
    if fresh.buckets:
        return check_on(ctx, case, fresh_handler(*key), site(*key)[1])
    from ..shrink import ddmin

    def still(hist):
        h = fresh_handler(*key)
        for text, dns in hist:
            h.splitname(text, dns)
        c = _Collect()
        check_on(c, case, h, site(*key)[1])
        return bool(c.buckets & col.buckets)

    hist = log[:before]
    if still(hist):
        hist = ddmin(hist, still, 20.0)
    case = dict(case, history=hist)
    for b in sorted(col.buckets):
        ctx.fail("history-dependent:" + b, case, "fails after the calls in case['history'] on the same NsHandler, holds on a fresh one")


def check_on(ctx, case, handler, si):
    ent, rem, dns = case["ent"], case["rem"], case["defaultns"]
    results = []
    for text in case["spellings"]:
        sub = dict(case, spellings=[text], ops=[])
        lead = text.lstrip(" _‎‏").startswith(":")
        try:
            r = handler.splitname(text, dns)
        except Exception as e:
            ctx.fail("exception:%s" % type(e).__name__, sub, repr(e))
            continue
        nsid, local, partials = expected(si, ent, rem, dns, lead)
        ns, partial, full = r
        results.append((lead, r))
        if ns != nsid:
            ctx.fail("L4:namespace-number", sub, "splitname(%r,%r)=%r expected ns %r" % (text, dns, r, nsid))
            continue
        if partial not in partials:
            kind = "L3:partial-form"
            if partial.strip(" ‎‏_") != partial or "  " in partial or "_" in partial:
                kind = "L3:partial-has-edge-blank-or-mark"
            ctx.fail(kind, sub, "splitname(%r,%r)=%r expected partial in %r" % (text, dns, r, sorted(partials)))
            continue
        want_full = (local + ":" if local else "") + partial
        if full != want_full:
            ctx.fail("L3:full-form", sub, "splitname(%r,%r)=%r expected full %r" % (text, dns, r, want_full))
            continue
        # L2 idempotence
        for d2 in ([0] if ns == 0 else [0, 6, 10, 14]):
            try:
                r2 = handler.splitname(full, d2)
            except Exception as e:
                ctx.fail("exception:%s" % type(e).__name__, sub, repr(e))
                continue
            if tuple(r2) != tuple(r):
                ctx.fail("L2:not-idempotent", sub, "splitname(%r,%r)=%r but splitname(full,%r)=%r" % (text, dns, r, d2, r2))
    # L1: both spellings agree (given same leading-colon semantics)
    if len(results) == 2:
        (l1, r1), (l2, r2) = results
        same_meaning = ent is not None or dns == 0 or l1 == l2
        if same_meaning and tuple(r1) != tuple(r2):
            ctx.fail("L1:spellings-disagree", case, "%r -> %r ; %r -> %r" % (case["spellings"][0], r1, case["spellings"][1], r2))


def replay(ctx, case):
    check(ctx, case)


FUZZ_IMPORTS = ['mwlib.core.nshandling']


def run_shard(ctx):
    n = ctx.n(40000, 800000)

    @ctx.settings(n)
    @given(cases())
    def t(case):
        labels = ["lang:" + case["lang"], "flipped" if case["flipped"] else "as-shipped",
                  "ns:" + (case["ent"][0] if case["ent"] else "none"), "dns:%d" % case["defaultns"]]
        opsall = set(case["ops"][0]) | set(case["ops"][1])
        if ":" in case["rem"]:
            labels.append("colon-in-remainder")
        labels += ["op:" + o for o in sorted(opsall)]
        nontriv = max(len(case["ops"][0]), len(case["ops"][1])) >= 2
        if nontriv:
            labels.append("nontrivial")
        key = jdump([case["lang"], case["flipped"], case["spellings"], case["defaultns"]])
        ctx.record(key, labels, nontriv, sample=dict(lang=case["lang"], flipped=case["flipped"],
                                                      defaultns=case["defaultns"], spellings=case["spellings"]))
        check(ctx, case)

    ctx.run_given(t)
    ctx.fuzz_campaign("", (0, 320000))
    ctx.note("ambiguous_namespace_names_skipped", sum(site(l, False)[3] for l in LANGS) if ctx.shard == 0 else 0)
