"""C01 - parsing is total: any wikitext yields an article tree, never an exception, never a blow-up."""
from hypothesis import given, strategies as st, target

from ..ctx import jdump
from ..gens import soup as S
from . import _tree

META = dict(
    level="exploration",
    rule=(
        "Hypothesis draws (lexeme list | nesting ladder to depth 40 | mutated well-formed document, site language of 12, wiki database "
        "None or 0-4 soup templates incl. self/mutual recursion and an argument-doubling template). Lexemes come from a table built "
        "from the scanner grammar, every allowed HTML tag, every uniquified extension tag, entities (ill-formed, out of range, "
        "surrogate, huge), template syntax, control/non-BMP characters, cleaner-trigger attributes. Oracle: parse_string returns an "
        "Article, raises nothing, stays under the deterministic call budget 4e5+4e3n+40n^2; growth law work(u*2n) <= 8*work(u*n)+5e4 "
        "for units u of <= 6 lexemes, n in {25,50} (thorough: {25,50,100}) (a CPU-limit hit at n >= 100 whose smaller sizes grew <= 16x per doubling is slow polynomial time, which the statement allows: counted, not reported). Failures are bucketed by (exception type, innermost repo frame) and shrunk by "
        "ddmin over the lexeme list. Non-trivial: >= 2 markup lexeme classes and a non-Text node below the article; distinct = text+lang+db."
    ),
    assumptions=[
        "raw inputs are sequences of Unicode scalar values; lone surrogates only enter through numeric entities",
        "markup nesting deeper than 40 is outside the property (it exhausts the interpreter stack by construction)",
        "work is counted as Python call/c_call events (sys.setprofile); work inside Cython/C code is invisible to the counter and "
        "only bounded by the 15 s CPU limit",
    ],
    floors={"nontrivial": (0.3, None), "db": (0.2, None), "class:entity": (0.02, None), "kind:nest": (0.1, None), "kind:mutdoc": (0.04, None), "kind:misnest": (0.04, None)},
    stall_s=180,
)


FUZZ_IMPORTS = ["mwlib.parser.refine.uparser", "mwlib.parser.refine.core", "mwlib.parser.refine.compat", "mwlib.parser.expander",
                "mwlib.parser.refine.parse_table", "mwlib.parser.refine.tagparser", "mwlib.parser.styleanalyzer", "mwlib.parser.nodes"]


def evaluate(ctx, case, record=True):
    tree, work, fail = _tree.parse(case)
    if fail:
        ctx.fail(fail[0], slim(case), fail[1])
        return None, work
    return tree, work


def slim(case):
    return dict(parts=case["parts"], lang=case["lang"], db=case.get("db"))


def has_structure(tree):
    from mwlib.parser import nodes as N

    for n in tree.allchildren():
        if n is not tree and n.__class__ is not N.Text and n.__class__ is not N.Paragraph:
            return True
    return False


def replay(ctx, case):
    if case.get("ladder"):
        return growth(ctx, case)
    evaluate(ctx, case)


def growth(ctx, case):
    import time

    unit = "".join(case["parts"])
    works = {}
    cpu = {}
    sizes = (25, 50, 100, 200) if ctx.thorough else (25, 50, 100)  # (the largest size costs seconds per unit on slow shapes)
    for n in sizes:
        c = dict(parts=[unit * n], lang=case["lang"], db=case.get("db"))
        t0 = time.process_time()
        tree, w, fail = _tree.parse(c)
        cpu[n] = time.process_time() - t0
        if fail:
            if fail[0] == "hang:cpu-limit" and n >= 100 and cpu[n // 2] <= 16 * cpu[n // 4] + 0.2 and 16 * cpu[n // 2] >= 0.5 * _tree.CPU_LIMIT:
                # the smaller sizes grew by a bounded factor per doubling (<= 16x: degree <= 4, measured CPU times are noisy
                # under load) and that rate predicts the limit for this size: slow polynomial growth, which the statement
                # allows, not a blow-up - recorded, not reported
                _tree._cpu_hits[0] = max(0, _tree._cpu_hits[0] - 1)  # not an overrun that should end the shard's search
                ctx.labels["ladder:cubic-time-reached-the-cpu-limit"] = ctx.labels.get("ladder:cubic-time-reached-the-cpu-limit", 0) + 1
                ctx.notes.setdefault("slow_but_polynomial_units", [])
                if len(ctx.notes["slow_but_polynomial_units"]) < 3:
                    ctx.notes["slow_but_polynomial_units"].append(dict(unit=unit[:200], db=case.get("db") is not None, cpu_seconds={str(k): round(v, 2) for k, v in cpu.items()}))
                return works
            ctx.fail("ladder:" + fail[0], dict(slim(case), ladder=True, repeat=n), fail[1])
            return works
        works[n] = w
    for n in (25, 50, 100):
        if 2 * n not in works:
            continue
        if works[2 * n] > 8 * works[n] + 50000:
            ctx.fail("growth-law", dict(slim(case), ladder=True), "work %r: doubling %d -> %d repetitions multiplies work by %.1f" % (
                works, n, 2 * n, works[2 * n] / max(1, works[n])))
            break
    return works


def run_shard(ctx):
    import time

    max_lex = 400 if ctx.thorough else 60
    t_start, t_budget, skipped = time.time(), (900.0 if ctx.thorough else 60.0), [0]

    @ctx.settings(ctx.n(12000, 64000))
    @given(_tree.soup_case(max_lex))
    def t(case):
        if _tree.exhausted():
            return
        if time.time() - t_start > t_budget:
            # the search (steered towards expensive inputs by target()) has used its share of the run: the remaining draws
            # are skipped and counted - a time budget that is hit means "explored less", never a violation
            skipped[0] += 1
            return
        ctx.announce(slim(case))
        tree, work = evaluate(ctx, case)
        text = _tree.text_of(case)
        markup_classes = [c for c in case["classes"] if c not in ("text", "free", "line")]
        nt = tree is not None and (len(markup_classes) >= 2 or case["kind"] in ("nest", "mutdoc", "misnest")) and has_structure(tree)
        labels = ["lang:" + case["lang"], "kind:" + case["kind"], "db" if case["db"] is not None else "no-db"]
        labels += ["class:" + c for c in case["classes"]]
        if case["depth"]:
            labels.append("depth:%d0s" % (case["depth"] // 10))
        if "&#99999999999;" in text or "&#1114112;" in text or "&#xD800;" in text:
            labels.append("entity-out-of-range")
        if "\x7fUNIQ" in text:
            labels.append("uniq-marker")
        if nt:
            labels.append("nontrivial")
        ctx.record(jdump([text, case["lang"], case["db"]]), labels, nt, sample=dict(text=text[:300], lang=case["lang"], db=case["db"], work=work))
        if len(text):
            target(work / (len(text) + 50.0))

    ctx.run_given(t)
    if skipped[0]:
        ctx.labels["draws-skipped-after-the-time-budget"] = skipped[0]
        ctx.inconclusive.append("shard %d: %d draws skipped after %.0f s" % (ctx.shard, skipped[0], t_budget))
    ctx.fuzz_campaign("", (0, 160000))

    # growth law on short units
    @ctx.settings(ctx.n(320, 8000))
    @given(S.soup(6), st.sampled_from(_tree.LANGS), st.one_of(st.none(), _tree.template_universe()))
    def g(lex, lang, db):
        case = dict(parts=[l for _, l in lex], lang=lang, db=db, ladder=True)
        if not "".join(case["parts"]) or _tree.exhausted() or len("".join(case["parts"])) > 400:
            return  # (a unit of kilobytes repeated 200 times is megabytes of input: the law is about short units)
        ctx.announce(case)
        works = growth(ctx, case)
        ctx.record("ladder" + jdump(case), ["ladder"], True, sample=dict(unit="".join(case["parts"])[:100], work=works))

    ctx.run_given(g, "ladder")

    # systematic ladders: every lexeme of the table (alone, and followed by a word) as the repeated unit
    units = []
    for cls, lx in S.ALL:
        if 0 < len(lx) <= 40:
            units.append([lx])
            units.append([lx, "a"])
    for i, unit in enumerate(units):
        if i % ctx.nshards != ctx.shard or _tree.exhausted():
            continue
        case = dict(parts=unit, lang="en", db=None, ladder=True)
        ctx.announce(case)
        works = growth(ctx, case)
        ctx.record("ladder" + jdump(case), ["ladder", "ladder-systematic"], True)
    ctx.exhaustive.append("growth ladder for each of the %d lexemes of length <= 40, alone and followed by a word" % (len(units) // 2))

    if _tree.exhausted():
        ctx.inconclusive.append("shard %d stopped generating after 3 CPU overruns" % ctx.shard)
    # shrink one representative per bucket found by this shard (not the hangs: every probe would cost the limit again)
    for bucket, f in [kv for kv in ctx.failures.items() if "hang" not in kv[0]][:6]:
        case = f["case"]
        if case.get("ladder"):
            continue

        def same(c, bucket=bucket):
            _, _, fail = _tree.parse(c)
            return fail is not None and fail[0] == bucket

        small = _tree.shrink_case(case, same, 30.0)
        if len(jdump(small)) < f["size"]:
            f["case"], f["size"] = small, len(jdump(small))
