"""run_shard / replay shared by C05 and C06 (one driver, two oracles)."""
from hypothesis import given, strategies as st

from ..ctx import jdump
from . import _tree


def slim(case):
    return dict(parts=case["parts"], lang=case["lang"], db=case.get("db"))


def judge(ctx, case, prop, res=None):
    res = res or _tree.drive(case, want_c05=prop == "C05", want_c06=prop == "C06")
    for p, bucket, detail in res["failures"]:
        if p == prop:
            ctx.fail(bucket, slim(case), detail)
    return res


def replay(ctx, case, prop):
    res = judge(ctx, case, prop)
    if prop == "C06" and not any(p == "C06" for p, _, _ in res["failures"]):  # (clean_all() has no limit of its own: never after a hang)
        rep = _tree.clean_all_reports(case)
        if rep:
            ctx.fail("clean_all-swallowed-an-error", slim(case), rep)


def run_shard(ctx, prop):
    max_lex = 200 if ctx.thorough else 50
    passes_changed = {}
    counter = [0]

    @ctx.settings(ctx.n(6400, 64000))
    @given(_tree.soup_case(max_lex))
    def t(case):
        if _tree.exhausted():
            return
        ctx.announce(slim(case))
        res = judge(ctx, case, prop)
        counter[0] += 1
        if prop == "C06" and counter[0] % 10 == 0 and not res["parse_failed"]:
            rep = _tree.clean_all_reports(case)
            if rep and not any(p == "C06" for p, _, _ in res["failures"]):
                ctx.fail("clean_all-swallowed-an-error", slim(case), rep)
        text = _tree.text_of(case)
        nt = bool(res["changed"])
        labels = ["kind:" + case["kind"], "db" if case["db"] is not None else "no-db"]
        if res["parse_failed"]:
            labels.append("parse-failed")
        if nt:
            labels.append("nontrivial")
        for name in res["changed"]:
            passes_changed[name] = passes_changed.get(name, 0) + 1
        ctx.record(jdump([text, case["lang"], case["db"]]), labels, nt,
                   sample=dict(text=text[:300], lang=case["lang"], db=case["db"], nodes=res["nodes"], passes_that_changed=sorted(res["changed"])))

    ctx.run_given(t)

    # systematic: every lexeme of the table alone and in four small contexts (cell, list item, indented line, div)
    from ..gens import soup as S

    contexts = [("%s", "alone"), ("{|\n|%s\n|x\n|}", "cell"), ("* %s\n* y", "item"), (" %s z", "pre-line"), ("<div>%s</div>\n\npara", "div")]
    i = 0
    for cls, lx in S.ALL:
        for fmt, cname in contexts:
            i += 1
            if i % ctx.nshards != ctx.shard:
                continue
            case = dict(parts=[fmt % lx], lang="en", db=None, classes=[cls], depth=0, kind="systematic")
            ctx.announce(slim(case))
            res = judge(ctx, case, prop)
            for name in res["changed"]:
                passes_changed[name] = passes_changed.get(name, 0) + 1
            ctx.record(jdump([case["parts"], "en", None]), ["systematic", "ctx:" + cname] + (["nontrivial"] if res["changed"] else []), bool(res["changed"]))
    ctx.exhaustive.append("each of the %d lexemes alone and inside a table cell / list item / indented line / div" % len(S.ALL))
    # systematic: every chain of container tags (each the only child of the one before, text at the bottom, all closed),
    # i.e. every way to put a table / row / cell / list / item directly into another one
    import itertools

    fams = [["table", "tr", "td", "caption"], ["ul", "li", "dl", "dd"]] if not ctx.thorough else [["table", "tr", "td", "caption", "th", "ul", "li"], ["ul", "li", "dl", "dd", "dt", "table", "tr"]]
    maxlen = 5 if ctx.thorough else 4
    i = 0
    nchains = 0
    seen_chains = set()
    for fam in fams:
        for k in range(1, maxlen + 1):
            for chain in itertools.product(fam, repeat=k):
                if chain in seen_chains:
                    continue
                seen_chains.add(chain)
                # at the bottom: plain text, or loose text followed by proper children (so that the container survives cleaning)
                for leaf in ("x", "loose <td>a</td><td>b</td>" if "table" in fam[:1] else "loose <li>i</li><li>j</li>"):
                    i += 1
                    nchains += 1
                    if i % ctx.nshards != ctx.shard:
                        continue
                    text = "".join("<%s>" % t for t in chain) + leaf + "".join("</%s>" % t for t in reversed(chain)) + "\n\nafter"
                    case = dict(parts=[text], lang="en", db=None, classes=["chain"], depth=0, kind="systematic")
                    ctx.announce(slim(case))
                    res = judge(ctx, case, prop)
                    for name in res["changed"]:
                        passes_changed[name] = passes_changed.get(name, 0) + 1
                    ctx.record(jdump([case["parts"], "en", None]), ["systematic", "container-chain"] + (["nontrivial"] if res["changed"] else []), bool(res["changed"]))
    ctx.exhaustive.append("all %d container-tag chains of length <= %d over %r (text, or loose text + proper children, at the bottom)" % (nchains, maxlen, fams))
    for name, n in passes_changed.items():
        ctx.labels["changed-by:" + name] = n

    if _tree.exhausted():
        ctx.inconclusive.append("shard %d stopped generating after 3 CPU overruns" % ctx.shard)
    for bucket, f in [kv for kv in ctx.failures.items() if "hang" not in kv[0]][:6]:
        case = f["case"]

        def same(c, bucket=bucket):
            r = _tree.drive(dict(c, depth=0, kind="soup", classes=[]))
            return any(p == prop and b == bucket for p, b, _ in r["failures"])

        small = _tree.shrink_case(case, same, 30.0)
        if len(jdump(small)) < f["size"]:
            f["case"], f["size"] = small, len(jdump(small))
