"""C20 - output files appear atomically: a crash never leaves a partial file (fault enumeration with strace)."""
import json
import os
import re
import shutil
import subprocess
import sys
import zipfile

from ..ctx import HarnessError, jdump

PRODUCERS = ["status", "create_zip", "make_zip", "download", "render_rl", "render_odf"]
EXT = {"status": "json", "create_zip": "zip", "make_zip": "zip", "download": "bin", "render_rl": "pdf", "render_odf": "odt"}
NAMES = ["openat", "write", "close", "rename", "renameat", "renameat2", "unlink", "unlinkat", "mkdir", "ftruncate", "fsync", "pwrite64", "writev", "lseek"]
ERRORS = {"write": "ENOSPC", "openat": "ENOSPC", "mkdir": "ENOSPC", "rename": "EIO", "close": "EIO", "pwrite64": "ENOSPC", "writev": "ENOSPC", "unlink": "EIO"}

META = dict(
    level="fault_enumeration",
    rule=(
        "For each producer (Status updates; ZipCreator.create_zip; make_zip with a local directory writer; fetch.download_to_file against "
        "a stub client incl. one 429 retry; render.main -w rl and -w odf on a one-article archive) x pre-state (final path absent / "
        "holding a complete previous version) a calibration run under strace counts, per syscall name, the calls before and inside the "
        "producer (bracketed by two marker stat() calls). Then every (syscall name, K) inside the bracket (+2 on each side) is a crash "
        "point: the producer runs in a fresh child under 'strace -f -e inject=<name>:signal=SIGKILL:when=K' (killed on entry to that call; "
        "user-space buffers are lost) and, for write/openat/mkdir/rename/close/unlink, with error=ENOSPC|EIO instead. The render producers "
        "are strided to <= 24 points per syscall name in the quick tier (lseek points only in the thorough tier). Oracle: the final path, opened by name afterwards, is absent, or "
        "parses completely (JSON / zip with clean testzip and readable nfo.json / exact payload bytes / PDF with pages / ODF package); a "
        "producer that reports success after an injected error must have left a complete file. Non-trivial: the fault fired inside the "
        "bracket (between the producer's first and last file-system call)."
    ),
    assumptions=[
        "kill -9 model: the file system changes only at system calls; power loss (fsync ordering) and partially executed large writes are not modelled",
        "strace keeps one counter per syscall name and per traced thread; a crash point is the pair (name, K)",
        "archive content is one fixed small collection; the producers' inputs are not varied",
    ],
    floors={},
    stall_s=300,
    max_shards=16,
)

STRACE = shutil.which("strace")


def child_cmd(producer, workdir, prestate):
    return [sys.executable, "-W", "ignore", "-m", "vf.c20_producer", producer, workdir, prestate]


def calibrate(producer, base):
    """Returns dict(before={name: n}, inside={name: n}, reference=path of the clean output)"""
    wd = os.path.join(base, "calib-" + producer)
    shutil.rmtree(wd, ignore_errors=True)
    os.makedirs(wd)
    log = os.path.join(wd, "strace.log")
    cmd = [STRACE, "-f", "-o", log, "-e", "trace=" + ",".join(NAMES + ["newfstatat", "stat"])] + child_cmd(producer, wd, "absent")
    r = subprocess.run(cmd, capture_output=True, text=True, timeout=600)
    if "RESULT ok" not in r.stdout:
        raise HarnessError("calibration run of producer %s did not succeed: %s %s" % (producer, r.stdout[-500:], r.stderr[-1500:]))
    before, inside = {}, {}
    state = 0
    mainpid = None
    with open(log, errors="replace") as f:
        for line in f:
            m = re.match(r"(\d+)\s+(\w+)\(", line)
            if not m:
                continue
            pid, name = m.group(1), m.group(2)
            if mainpid is None:
                mainpid = pid
            if "VF_MARK_BEGIN" in line:
                state = 1
                continue
            if "VF_MARK_END" in line:
                state = 2
                continue
            if pid != mainpid or name not in NAMES:
                continue
            if state == 0:
                before[name] = before.get(name, 0) + 1
            elif state == 1:
                inside[name] = inside.get(name, 0) + 1
    if state != 2:
        raise HarnessError("calibration of %s: markers not seen in the strace log" % producer)
    final = os.path.join(wd, "final." + EXT[producer])
    why = validate(producer, final)
    if why or not os.path.exists(final):
        raise HarnessError("calibration of %s: clean run left no valid output (%s)" % (producer, why or "absent"))
    os.remove(log)
    return dict(before=before, inside=inside, reference=final)


def prepare():
    if not STRACE:
        raise HarnessError("strace not found: crash points cannot be injected")
    base = os.environ.get("TMPDIR", "/tmp")
    probe = subprocess.run([STRACE, "-f", "-o", "/dev/null", "-e", "trace=write", "-e", "inject=write:error=ENOSPC:when=1", "/bin/echo", "x"],
                           capture_output=True, text=True)
    if "ptrace" in probe.stderr.lower() or "Operation not permitted" in probe.stderr:
        raise HarnessError("ptrace is not permitted here: %s" % probe.stderr[:300])
    from concurrent.futures import ThreadPoolExecutor

    with ThreadPoolExecutor(6) as ex:
        res = dict(zip(PRODUCERS, ex.map(lambda p: calibrate(p, base), PRODUCERS)))
    with open(os.path.join(base, "c20-calibration.json"), "w") as f:
        json.dump(res, f)


def validate(producer, final):
    """None if the final path is absent or a complete version; otherwise a description of what is wrong"""
    if not os.path.lexists(final):
        return None
    try:
        if producer == "status":
            with open(final) as f:
                d = json.load(f)
            if not isinstance(d, dict) or "progress" not in d:
                return "status file parses but is not a status record: %r" % (d,)
        elif producer in ("create_zip", "make_zip"):
            with zipfile.ZipFile(final) as zf:
                bad = zf.testzip()
                if bad:
                    return "zip member %r is corrupt" % bad
                nfo = json.loads(zf.read("nfo.json"))
                if nfo.get("format") != "nuwiki" or "revisions-1.txt" not in zf.namelist():
                    return "zip is readable but incomplete: %r" % zf.namelist()
        elif producer == "download":
            from ..c20_producer import PAYLOAD_NEW, PAYLOAD_OLD

            with open(final, "rb") as f:
                data = f.read()
            if data not in (PAYLOAD_NEW, PAYLOAD_OLD):
                return "downloaded file has %d bytes, neither the previous (%d) nor the served (%d) payload" % (len(data), len(PAYLOAD_OLD), len(PAYLOAD_NEW))
        elif producer == "render_rl":
            import pypdf

            with open(final, "rb") as f:
                rd = pypdf.PdfReader(f)
                if len(rd.pages) < 1:
                    return "pdf without pages"
                rd.pages[0].extract_text()
        elif producer == "render_odf":
            with zipfile.ZipFile(final) as zf:
                bad = zf.testzip()
                if bad or "content.xml" not in zf.namelist():
                    return "odf package incomplete: %r" % zf.namelist()
                from lxml import etree

                etree.fromstring(zf.read("content.xml"))
    except Exception as e:
        return "%s: %s" % (type(e).__name__, str(e)[:200])
    return None


def run_point(ctx, calib, base, producer, prestate, fault, name, k):
    wd = os.path.join(base, "run")
    shutil.rmtree(wd, ignore_errors=True)
    os.makedirs(wd)
    final = os.path.join(wd, "final." + EXT[producer])
    if prestate == "previous":
        if producer == "download":
            from ..c20_producer import PAYLOAD_OLD

            with open(final, "wb") as f:
                f.write(PAYLOAD_OLD)
        elif producer == "status":
            with open(final, "w") as f:
                json.dump({"status": "previous run", "progress": 100}, f)
        else:
            shutil.copy(calib[producer]["reference"], final)
    inject = "%s:signal=SIGKILL:when=%d" % (name, k) if fault == "kill" else "%s:error=%s:when=%d" % (name, ERRORS[name], k)
    log = os.path.join(wd, "strace.log")
    cmd = [STRACE, "-f", "-o", log, "-e", "trace=%s,newfstatat,stat" % name, "-e", "inject=" + inject] + child_cmd(producer, wd, prestate)
    try:
        r = subprocess.run(cmd, capture_output=True, text=True, timeout=300)
        out, rc = r.stdout, r.returncode
    except subprocess.TimeoutExpired:
        out, rc = "", "timeout"
    # where did the fault fire?
    began = ended = fired = False
    try:
        with open(log, errors="replace") as f:
            for line in f:
                if "VF_MARK_BEGIN" in line:
                    began = True
                elif "VF_MARK_END" in line:
                    ended = True
                elif "(INJECTED)" in line or "killed by SIGKILL" in line:
                    fired = True
                    inside = began and not ended
    except OSError:
        pass
    inside = fired and began and not ended if fault == "kill" else fired and locals().get("inside", False)
    case = dict(producer=producer, prestate=prestate, fault=fault, syscall=name, k=k)
    why = validate(producer, final)
    if why:
        ctx.fail("%s:partial-file-visible:%s" % (producer, fault), case, "after %s on %s #%d (child rc=%r): %s" % (fault, name, k, rc, why))
    elif fault == "error" and "RESULT ok" in out and not os.path.exists(final):
        ctx.fail("%s:success-reported-without-output" % producer, case, "producer reported success after %s on %s #%d but the final path is missing" % (ERRORS[name], name, k))
    shutil.rmtree(wd, ignore_errors=True)
    return inside, fired


def points(calib, producer, thorough):
    c = calib[producer]
    pts = []
    for name in NAMES:
        n = c["inside"].get(name, 0)
        if not n or (name == "lseek" and not thorough):  # lseek changes nothing on disk: thorough tier only
            continue
        b = c["before"].get(name, 0)
        ks = list(range(max(1, b - 1), b + n + 3))
        if producer.startswith("render") and not thorough and len(ks) > 24:
            step = len(ks) / 20.0
            ks = sorted({ks[int(i * step)] for i in range(20)} | set(ks[-4:]))
        for k in ks:
            pts.append(("kill", name, k))
            if name in ERRORS:
                pts.append(("error", name, k))
    return pts


def replay(ctx, case):
    base = os.path.join(ctx.workdir, "c20-replay-%d" % os.getpid())
    os.makedirs(base, exist_ok=True)
    os.environ.setdefault("TMPDIR", base)
    calib = {case["producer"]: calibrate(case["producer"], base)}
    run_point(ctx, calib, base, case["producer"], case["prestate"], case["fault"], case["syscall"], case["k"])
    shutil.rmtree(base, ignore_errors=True)


def run_shard(ctx):
    with open(os.path.join(ctx.workdir, "c20-calibration.json")) as f:
        calib = json.load(f)
    base = os.path.join(ctx.workdir, "c20-%02d" % ctx.shard)
    os.makedirs(base, exist_ok=True)
    tasks = []
    for producer in PRODUCERS:
        for prestate in ("absent", "previous"):
            for fault, name, k in points(calib, producer, ctx.thorough):
                tasks.append((producer, prestate, fault, name, k))
    for i, (producer, prestate, fault, name, k) in enumerate(tasks):
        if i % ctx.nshards != ctx.shard:
            continue
        case = dict(producer=producer, prestate=prestate, fault=fault, syscall=name, k=k)
        ctx.announce(case)
        inside, fired = run_point(ctx, calib, base, producer, prestate, fault, name, k)
        labels = ["producer:" + producer, "pre:" + prestate, "fault:" + fault, "syscall:" + name]
        if inside:
            labels.append("nontrivial")
        if not fired:
            labels.append("fault-did-not-fire")
        ctx.record(jdump(case), labels, inside, sample=dict(case, fired_inside_producer=inside))
    if ctx.shard == 0:
        ctx.note("crash_points_total", len(tasks))
        ctx.note("syscalls_inside_producers", {p: calib[p]["inside"] for p in PRODUCERS})
    shutil.rmtree(base, ignore_errors=True)
