"""C20 - output files appear atomically: a crash never leaves a partial file (fault enumeration with strace)."""
import json
import os
import re
import shutil
import subprocess
import sys
import zipfile

from ..ctx import HarnessError, jdump

PRODUCERS = ["status", "create_zip", "make_zip", "download", "render_rl", "render_odf"]
EXT = {"status": "json", "create_zip": "zip", "make_zip": "zip", "download": "bin", "render_rl": "pdf", "render_odf": "odt"}
NAMES = ["openat", "write", "close", "rename", "renameat", "renameat2", "unlink", "unlinkat", "mkdir", "ftruncate", "fsync", "pwrite64", "writev",
         "sendfile", "copy_file_range", "lseek"]
ERRORS = {"write": "ENOSPC", "openat": "ENOSPC", "mkdir": "ENOSPC", "rename": "EIO", "close": "EIO", "pwrite64": "ENOSPC", "writev": "ENOSPC", "unlink": "EIO",
          "sendfile": "ENOSPC", "copy_file_range": "ENOSPC"}
PERSISTENT = ("write", "pwrite64", "writev", "sendfile", "copy_file_range")  # a full device stays full: error on the K-th and all later calls
# second layout: the output directory on another file system than the temporary directory (a data volume vs. /tmp)
OTHER_FS_PRODUCERS = PRODUCERS  # (quick tier: with a previous version in place only, render producers strided more sparsely)


def other_fs_root():
    """a writable directory on a different file system than TMPDIR, or None"""
    tmp = os.environ.get("TMPDIR", "/tmp")
    for cand in ("/dev/shm", "/var/tmp", os.path.expanduser("~"), "/run/user/%d" % os.getuid()):
        try:
            if os.path.isdir(cand) and os.access(cand, os.W_OK) and os.stat(cand).st_dev != os.stat(tmp).st_dev:
                return cand
        except OSError:
            pass
    return None

META = dict(
    level="fault_enumeration",
    rule=(
        "For each producer (Status updates; ZipCreator.create_zip; make_zip with a local directory writer; fetch.download_to_file against "
        "a stub client incl. one 429 retry; render.main -w rl and -w odf on a one-article archive) x pre-state (final path absent / "
        "holding a complete previous version) a calibration run under strace counts, per syscall name, the calls before and inside the "
        "producer (bracketed by two marker stat() calls). Then every (syscall name, K) inside the bracket (+2 on each side) is a crash "
        "point: the producer runs in a fresh child under 'strace -f -e inject=<name>:signal=SIGKILL:when=K' (killed on entry to that call; "
        "user-space buffers are lost) and, for write/openat/mkdir/rename/close/unlink, with error=ENOSPC|EIO instead - once (that call only) and, "
        "for the write-like calls, persistently (that call and every later one: the device stays full). The render producers "
        "are strided to <= 24 points per syscall name in the quick tier (lseek points only in the thorough tier). Oracle: the final path, opened by name afterwards, is absent, or "
        "parses completely (JSON / zip with clean testzip and readable nfo.json / exact payload bytes / PDF with pages / ODF package); a "
        "producer that reports success after an injected error must have left a complete file. Layouts: output next to the temporary directory, "
        "and (when the host has a second writable file system, e.g. /dev/shm) output on another file system than TMPDIR - all producers in the "
        "thorough tier; in the quick tier with a previous version in place only and the render producers strided to <= 10 points per syscall. Non-trivial: the fault fired inside the "
        "bracket (between the producer's first and last file-system call)."
    ),
    assumptions=[
        "kill -9 model: the file system changes only at system calls; power loss (fsync ordering) and partially executed large writes are not modelled",
        "strace keeps one counter per syscall name and per traced thread; a crash point is the pair (name, K)",
        "archive content is one fixed small collection; the producers' inputs are not varied",
    ],
    floors={},
    stall_s=300,
    max_shards=16,
)

STRACE = shutil.which("strace")


def child_cmd(producer, workdir, prestate, outdir=None):
    return [sys.executable, "-W", "ignore", "-m", "vf.c20_producer", producer, workdir, prestate] + ([outdir] if outdir else [])


def child_env(wd):
    return dict(os.environ, TMPDIR=wd)  # the producer's temporary directory is its (same-fs) work directory


def calibrate(producer, base, other=None):
    """Returns dict(before={name: n}, inside={name: n}, reference=path of the clean output).
    other: root directory on another file system that receives the output (layout other-fs)"""
    wd = os.path.join(base, "calib-" + producer + ("-o" if other else ""))
    shutil.rmtree(wd, ignore_errors=True)
    os.makedirs(wd)
    outdir = None
    if other:
        outdir = os.path.join(other, "vf-c20-calib-%d-%s" % (os.getpid(), producer))
        shutil.rmtree(outdir, ignore_errors=True)
        os.makedirs(outdir)
    log = os.path.join(wd, "strace.log")
    cmd = [STRACE, "-f", "-o", log, "-e", "trace=" + ",".join(NAMES + ["newfstatat", "stat"])] + child_cmd(producer, wd, "absent", outdir)
    r = subprocess.run(cmd, capture_output=True, text=True, timeout=600, env=child_env(wd))
    if "RESULT ok" not in r.stdout:
        raise HarnessError("calibration run of producer %s did not succeed: %s %s" % (producer, r.stdout[-500:], r.stderr[-1500:]))
    before, inside = {}, {}
    state = 0
    mainpid = None
    with open(log, errors="replace") as f:
        for line in f:
            m = re.match(r"(\d+)\s+(\w+)\(", line)
            if not m:
                continue
            pid, name = m.group(1), m.group(2)
            if mainpid is None:
                mainpid = pid
            if "VF_MARK_BEGIN" in line:
                state = 1
                continue
            if "VF_MARK_END" in line:
                state = 2
                continue
            if pid != mainpid or name not in NAMES:
                continue
            if state == 0:
                before[name] = before.get(name, 0) + 1
            elif state == 1:
                inside[name] = inside.get(name, 0) + 1
    if state != 2:
        raise HarnessError("calibration of %s: markers not seen in the strace log" % producer)
    final = os.path.join(outdir or wd, "final." + EXT[producer])
    why = validate(producer, final)
    if why or not os.path.exists(final):
        raise HarnessError("calibration of %s: clean run left no valid output (%s)" % (producer, why or "absent"))
    os.remove(log)
    if outdir:
        ref = os.path.join(wd, "reference." + EXT[producer])
        shutil.copy(final, ref)
        shutil.rmtree(outdir, ignore_errors=True)
        final = ref
    return dict(before=before, inside=inside, reference=final)


def prepare():
    if not STRACE:
        raise HarnessError("strace not found: crash points cannot be injected")
    base = os.environ.get("TMPDIR", "/tmp")
    probe = subprocess.run([STRACE, "-f", "-o", "/dev/null", "-e", "trace=write", "-e", "inject=write:error=ENOSPC:when=1", "/bin/echo", "x"],
                           capture_output=True, text=True)
    if "ptrace" in probe.stderr.lower() or "Operation not permitted" in probe.stderr:
        raise HarnessError("ptrace is not permitted here: %s" % probe.stderr[:300])
    from concurrent.futures import ThreadPoolExecutor

    other = other_fs_root()
    jobs = [(p, None) for p in PRODUCERS] + ([(p, other) for p in PRODUCERS] if other else [])
    with ThreadPoolExecutor(12) as ex:
        out = list(ex.map(lambda j: calibrate(j[0], base, j[1]), jobs))
    res = {(p + ("@other-fs" if o else "")): c for (p, o), c in zip(jobs, out)}
    res["_other_fs_root"] = other
    with open(os.path.join(base, "c20-calibration.json"), "w") as f:
        json.dump(res, f)


def validate(producer, final):
    """None if the final path is absent or a complete version; otherwise a description of what is wrong"""
    if not os.path.lexists(final):
        return None
    try:
        if producer == "status":
            with open(final) as f:
                d = json.load(f)
            if not isinstance(d, dict) or "progress" not in d:
                return "status file parses but is not a status record: %r" % (d,)
        elif producer in ("create_zip", "make_zip"):
            with zipfile.ZipFile(final) as zf:
                bad = zf.testzip()
                if bad:
                    return "zip member %r is corrupt" % bad
                nfo = json.loads(zf.read("nfo.json"))
                if nfo.get("format") != "nuwiki" or "revisions-1.txt" not in zf.namelist():
                    return "zip is readable but incomplete: %r" % zf.namelist()
        elif producer == "download":
            from ..c20_producer import PAYLOAD_NEW, PAYLOAD_OLD

            with open(final, "rb") as f:
                data = f.read()
            if data not in (PAYLOAD_NEW, PAYLOAD_OLD):
                return "downloaded file has %d bytes, neither the previous (%d) nor the served (%d) payload" % (len(data), len(PAYLOAD_OLD), len(PAYLOAD_NEW))
        elif producer == "render_rl":
            import pypdf

            with open(final, "rb") as f:
                rd = pypdf.PdfReader(f)
                if len(rd.pages) < 1:
                    return "pdf without pages"
                rd.pages[0].extract_text()
        elif producer == "render_odf":
            with zipfile.ZipFile(final) as zf:
                bad = zf.testzip()
                if bad or "content.xml" not in zf.namelist():
                    return "odf package incomplete: %r" % zf.namelist()
                from lxml import etree

                etree.fromstring(zf.read("content.xml"))
    except Exception as e:
        return "%s: %s" % (type(e).__name__, str(e)[:200])
    return None


def run_point(ctx, calib, base, producer, prestate, fault, name, k, layout="same-fs"):
    wd = os.path.join(base, "run")
    shutil.rmtree(wd, ignore_errors=True)
    os.makedirs(wd)
    outdir = None
    ckey = producer
    if layout == "other-fs":
        outdir = os.path.join(calib["_other_fs_root"], "vf-c20-%d-%s" % (os.getpid(), os.path.basename(base)))
        shutil.rmtree(outdir, ignore_errors=True)
        os.makedirs(outdir)
        ckey = producer + "@other-fs"
    final = os.path.join(outdir or wd, "final." + EXT[producer])
    if prestate == "previous":
        if producer == "download":
            from ..c20_producer import PAYLOAD_OLD

            with open(final, "wb") as f:
                f.write(PAYLOAD_OLD)
        elif producer == "status":
            with open(final, "w") as f:
                json.dump({"status": "previous run", "progress": 100}, f)
        else:
            shutil.copy(calib[ckey]["reference"], final)
    if fault == "kill":
        inject = "%s:signal=SIGKILL:when=%d" % (name, k)
    elif fault == "error":
        inject = "%s:error=%s:when=%d" % (name, ERRORS[name], k)
    else:  # "error+": the device stays full - this call and every later one of that name fail
        inject = "%s:error=%s:when=%d+" % (name, ERRORS[name], k)
    log = os.path.join(wd, "strace.log")
    cmd = [STRACE, "-f", "-o", log, "-e", "trace=%s,newfstatat,stat" % name, "-e", "inject=" + inject] + child_cmd(producer, wd, prestate, outdir)
    try:
        r = subprocess.run(cmd, capture_output=True, text=True, timeout=300, env=child_env(wd))
        out, rc = r.stdout, r.returncode
    except subprocess.TimeoutExpired:
        out, rc = "", "timeout"
    # where did the fault fire?
    began = ended = fired = False
    try:
        with open(log, errors="replace") as f:
            for line in f:
                if "VF_MARK_BEGIN" in line:
                    began = True
                elif "VF_MARK_END" in line:
                    ended = True
                elif ("(INJECTED)" in line or "killed by SIGKILL" in line) and not fired:
                    fired = True
                    inside = began and not ended
    except OSError:
        pass
    inside = fired and began and not ended if fault == "kill" else fired and locals().get("inside", False)
    reported_ok = "RESULT ok" in out or os.path.isdir(os.path.join(wd, "RESULT-ok"))  # (stdout itself may be hit by a persistent write error)
    case = dict(producer=producer, prestate=prestate, fault=fault, syscall=name, k=k)
    if layout != "same-fs":
        case["layout"] = layout
    why = validate(producer, final)
    if why:
        ctx.fail("%s:partial-file-visible:%s" % (producer, fault), case, "after %s on %s #%d (child rc=%r): %s" % (fault, name, k, rc, why))
    elif fault != "kill" and reported_ok and not os.path.exists(final):
        ctx.fail("%s:success-reported-without-output" % producer, case, "producer reported success after %s on %s #%d but the final path is missing" % (ERRORS[name], name, k))
    shutil.rmtree(wd, ignore_errors=True)
    if outdir:
        shutil.rmtree(outdir, ignore_errors=True)
    return inside, fired


def points(calib, producer, thorough):
    c = calib[producer]
    other = producer.endswith("@other-fs")
    producer = producer.split("@")[0]
    pts = []
    for name in NAMES:
        n = c["inside"].get(name, 0)
        if not n or (name == "lseek" and not thorough):  # lseek changes nothing on disk: thorough tier only
            continue
        b = c["before"].get(name, 0)
        ks = list(range(max(1, b - 1), b + n + 3))
        cap, pick = (10, 6) if other else (24, 20)  # (the second layout repeats the render producers more sparsely)
        if producer.startswith("render") and not thorough and len(ks) > cap:
            step = len(ks) / float(pick)
            ks = sorted({ks[int(i * step)] for i in range(pick)} | set(ks[-4:]))
        for k in ks:
            pts.append(("kill", name, k))
            if name in ERRORS:
                pts.append(("error", name, k))
            if name in PERSISTENT:
                pts.append(("error+", name, k))
    return pts


def replay(ctx, case):
    base = os.path.join(ctx.workdir, "c20-replay-%d" % os.getpid())
    os.makedirs(base, exist_ok=True)
    os.environ.setdefault("TMPDIR", base)
    layout = case.get("layout", "same-fs")
    if layout == "other-fs":
        other = other_fs_root()
        if not other:
            raise HarnessError("no second writable file system here: the other-fs layout cannot be replayed")
        calib = {case["producer"] + "@other-fs": calibrate(case["producer"], base, other), "_other_fs_root": other}
    else:
        calib = {case["producer"]: calibrate(case["producer"], base)}
    run_point(ctx, calib, base, case["producer"], case["prestate"], case["fault"], case["syscall"], case["k"], layout)
    shutil.rmtree(base, ignore_errors=True)


def run_shard(ctx):
    with open(os.path.join(ctx.workdir, "c20-calibration.json")) as f:
        calib = json.load(f)
    base = os.path.join(ctx.workdir, "c20-%02d" % ctx.shard)
    os.makedirs(base, exist_ok=True)
    tasks = []
    for producer in PRODUCERS:
        for prestate in ("absent", "previous"):
            for fault, name, k in points(calib, producer, ctx.thorough):
                tasks.append((producer, prestate, fault, name, k, "same-fs"))
    if calib.get("_other_fs_root"):
        for producer in (PRODUCERS if ctx.thorough else OTHER_FS_PRODUCERS):
            for prestate in (("absent", "previous") if ctx.thorough else ("previous",)):
                for fault, name, k in points(calib, producer + "@other-fs", ctx.thorough):
                    tasks.append((producer, prestate, fault, name, k, "other-fs"))
    for i, (producer, prestate, fault, name, k, layout) in enumerate(tasks):
        if i % ctx.nshards != ctx.shard:
            continue
        case = dict(producer=producer, prestate=prestate, fault=fault, syscall=name, k=k)
        if layout != "same-fs":
            case["layout"] = layout
        ctx.announce(case)
        inside, fired = run_point(ctx, calib, base, producer, prestate, fault, name, k, layout)
        labels = ["producer:" + producer, "pre:" + prestate, "fault:" + fault, "syscall:" + name, "layout:" + layout]
        if inside:
            labels.append("nontrivial")
        if not fired:
            labels.append("fault-did-not-fire")
        ctx.record(jdump(case), labels, inside, sample=dict(case, fired_inside_producer=inside))
    if ctx.shard == 0:
        ctx.note("crash_points_total", len(tasks))
        ctx.note("syscalls_inside_producers", {p: c["inside"] for p, c in calib.items() if isinstance(c, dict)})
        ctx.note("other_fs_root", calib.get("_other_fs_root") or "none: the other-fs layout was not explored on this host")
    shutil.rmtree(base, ignore_errors=True)
