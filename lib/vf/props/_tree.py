"""Shared driver for C01 / C05 / C06: soup -> parse -> advanced tree -> each cleaning pass, with an independent
tree validator, the writers' container contract, deterministic work budgets and root-cause bucketing."""
import sys

import re
from hypothesis import given, strategies as st

from ..budget import CpuAlarm, StepBudgetExceeded, Work, cpu_limit
from ..ctx import jdump, repo_frame_bucket
from ..gens import soup as S
from ..shrink import ddmin

LANGS = "de en es fr it ja nl no pl pt simple sv".split()


# ---- cases ---------------------------------------------------------------------------
@st.composite
def template_universe(draw):
    """0-4 template pages whose bodies are soup again; self and mutual recursion included"""
    n = draw(st.integers(0, 4))
    names = ["T", "T2", "Loop", "Dbl"][:n]
    out = {}
    for nm in names:
        body = "".join(l for _, l in draw(S.soup(12)))
        out[nm] = body
    if "Loop" in out:
        # every shape of recursion: single, double (fan-out per level), mutual, through an argument
        out["Loop"] = draw(st.sampled_from([out["Loop"] + "{{Loop}}{{T}}", "{{Loop}}{{Loop}}", "x{{Loop}}", "{{T2}}{{T2}}", "{{Loop|{{Loop}}}}",
                                            "{{Loop}}{{Loop}}{{Loop}}", out["Loop"]]))
        if draw(st.integers(0, 5)) == 0:
            # a loop through the <pages> tag: page T/1 transcludes the range that holds it
            out["T/1"] = out["Loop"][:30] + '<pages index="T" from=1 to=2 />'
            out["T/2"] = '<pages index=T from=1 to=2 /><pages index="T" from=2 to=2 />'
        if out["Loop"].startswith("{{T2}}"):
            out["T2"] = "{{Loop}}" + out.get("T2", "")[:20]
    if "Dbl" in out and draw(st.booleans()):
        out["Dbl"] = "{{{1}}}{{{1}}}" + out["Dbl"][:20]
    return out


MUT_SPLIT = re.compile(r"(\n|\[\[|\]\]|\{\||\|\}|\|-|\|\||!!|\||''+|</?[a-zA-Z]+|/?>|==+|\{\{|\}\}|\[|\]|[*#:;]+)")


@st.composite
def soup_case(draw, max_lex):
    kind = draw(st.sampled_from(["soup", "soup", "soup", "nest", "mutdoc", "misnest"]))
    if kind == "soup":
        lex = draw(S.soup(max_lex))
        classes = sorted({c for c, _ in lex})
        parts = [l for _, l in lex]
        depth = 0
    elif kind == "misnest":
        parts = [draw(S.misnest())]
        if draw(st.booleans()):
            parts += [l for _, l in draw(S.soup(3))]
        classes = ["misnest"]
        depth = 0
    elif kind == "mutdoc":
        # a well-formed document of C02's grammar, cut at its markup delimiters and damaged by 1-8 edits
        from ..gens.doc import G

        src, _ = G(draw(st.randoms(use_true_random=False)), "en").doc()
        parts = [x for x in MUT_SPLIT.split(src) if x][: max(400, max_lex * 8)]
        classes = {"mutdoc"}
        for _ in range(draw(st.integers(1, 8))):
            if not parts:
                break
            i = draw(st.integers(0, len(parts) - 1))
            op = draw(st.sampled_from(["delete", "duplicate", "swap", "insert", "truncate", "move"]))
            if op == "delete":
                del parts[i]
            elif op == "duplicate":
                parts.insert(i, parts[i])
            elif op == "swap" and i + 1 < len(parts):
                parts[i], parts[i + 1] = parts[i + 1], parts[i]
            elif op == "insert":
                c, lx = draw(S.lexeme())
                classes.add(c)
                parts.insert(i, lx)
            elif op == "truncate":
                parts[i] = parts[i][: draw(st.integers(0, max(0, len(parts[i]) - 1)))]
            elif op == "move":
                x = parts.pop(i)
                parts.insert(draw(st.integers(0, len(parts))), x)
        classes = sorted(classes)
        depth = 0
    else:
        depth, text = draw(S.nested())
        parts = [text]
        classes = ["nest"]
    lang = draw(st.sampled_from(LANGS))
    db = draw(st.one_of(st.none(), template_universe()))
    return dict(parts=parts, lang=lang, db=db, classes=classes, depth=depth, kind=kind)


def make_db(case):
    if case.get("db") is None:
        return None
    from ..wikidb import WikiDB

    return WikiDB(pages={"A": "article ''A''", "Thispage": "x"}, lang=case["lang"], templates=case["db"])


def text_of(case):
    return "".join(case["parts"])


def parse_budget(case):
    n = len(text_of(case))
    if case.get("db"):
        n += (text_of(case).count("{{") + 1) * sum(len(v) for v in case["db"].values()) * 4
    n = min(n, 300000)
    return int(4e5 + 4e3 * n + 40 * n * n)


CPU_LIMIT = 15  # seconds of CPU per case; typical cases cost milliseconds
_cpu_hits = [0]


def exhausted():
    """three CPU overruns in one shard: further search on this tree is pointless (and, where the time is spent inside
    compiled code that no alarm can interrupt, very slow) - the shard stops generating and reports what it has"""
    return _cpu_hits[0] >= 3


def parse(case, budget=True):
    """returns (tree, work, failure) where failure is (bucket, detail) or None"""
    import time as _time

    cpu0 = _time.process_time()
    tree, work, fail = _parse(case, budget)
    used = _time.process_time() - cpu0
    if fail is None and used > CPU_LIMIT:
        # the alarm cannot interrupt compiled code; the CPU clock still tells (15 s against milliseconds typical)
        fail = ("hang:cpu-limit", "parse burnt %.0f s CPU for %d characters" % (used, len(text_of(case))))
        tree = None
    if fail is not None and fail[0] == "hang:cpu-limit":
        _cpu_hits[0] += 1
    return tree, work, fail


def _parse(case, budget=True):
    from mwlib.parser.refine.uparser import parse_string

    raw = text_of(case)
    db = make_db(case)
    w = Work(parse_budget(case) if budget else 10 ** 12)
    try:
        with cpu_limit(CPU_LIMIT):
            with w:
                tree = parse_string(title="Thispage", raw=raw, wikidb=db, lang=case["lang"])
    except StepBudgetExceeded:
        return None, w.count, ("hang:step-budget", "more than %d calls for %d characters" % (w.limit, len(raw)))
    except CpuAlarm:
        return None, w.count, ("hang:cpu-limit", "parse burnt more than %d s CPU for %d characters" % (CPU_LIMIT, len(raw)))
    except RecursionError as e:
        return None, w.count, ("exception:RecursionError:" + repo_frame_bucket(e).split(":", 1)[1], "depth %r" % case.get("depth"))
    except MemoryError:
        return None, w.count, ("exception:MemoryError", "")
    except Exception as e:
        import traceback

        return None, w.count, ("exception:" + repo_frame_bucket(e), traceback.format_exc()[-1800:])
    from mwlib.parser import nodes as N

    if not isinstance(tree, N.Article):
        return None, w.count, ("not-an-article", repr(type(tree)))
    return tree, w.count, None


# ---- independent validators ----------------------------------------------------------
def validate(root):
    """every node once, parent links right, root without parent, text leaves childless. Iterative, identity based."""
    from mwlib.parser import nodes as N

    if root.parent is not None:
        return "root-has-parent"
    seen = set()
    stack = [(root, None)]
    n = 0
    while stack:
        node, parent = stack.pop()
        if id(node) in seen:
            return "node-occurs-twice:" + node.__class__.__name__
        seen.add(id(node))
        n += 1
        if parent is not None and node.parent is not parent:
            return "parent-link-wrong:%s-under-%s" % (node.__class__.__name__, parent.__class__.__name__)
        if node.__class__ is N.Text and node.children:
            return "text-has-children"
        for c in node.children:
            stack.append((c, node))
    return None


def contract(root):
    from mwlib.parser import advtree as A, nodes as N

    caption_classes = tuple(c for c in (getattr(N, "Caption", None), getattr(A, "TableCaption", None), getattr(A, "Caption", None)) if c)
    for n in root.allchildren():
        c = n.__class__
        if c is A.Table:
            for ch in n.children:
                if ch.__class__ is not A.Row and not isinstance(ch, caption_classes):
                    return "table-child:" + ch.__class__.__name__
        elif c is A.Row:
            for ch in n.children:
                if ch.__class__ is not A.Cell:
                    return "row-child:" + ch.__class__.__name__
            if n.parent is None or n.parent.__class__ is not A.Table:
                return "row-outside-table:" + n.parent.__class__.__name__
        elif c is A.ItemList:
            for ch in n.children:
                if ch.__class__ is not A.Item:
                    return "list-child:" + ch.__class__.__name__
        elif c is A.Cell:
            if n.parent is None or n.parent.__class__ is not A.Row:
                return "cell-outside-row:" + n.parent.__class__.__name__
        elif c is A.Item:
            if n.parent is None or n.parent.__class__ is not A.ItemList:
                return "item-outside-list:" + n.parent.__class__.__name__
    return None


def signature(root):
    out = []
    stack = [root]
    while stack:
        n = stack.pop()
        out.append(n.__class__.__name__)
        out.append(len(n.children))
        if not n.children:
            out.append(getattr(n, "caption", None))
        stack.extend(n.children)
    return hash(tuple(out)), len(out) // 2


FIXED_POINT = {"fix_nesting": "_fix_nesting", "fix_paragraphs": "_fix_paragraphs"}


def _uncounted_copy():
    """AdvancedNode.copy() deep-copies whatever hangs off the subtree - every Link node carries the site's NsHandler with
    its whole siteinfo, ~1.8e5 call events per link and copy.  That is a (large) constant per copied link, not growth, and
    it swamped the per-pass call budget on trees of 30 nodes (a false alarm of this harness, see DESIGN I.4): the work of
    one copy() is counted as one call plus the number of copied nodes."""
    from mwlib.parser import advtree

    if getattr(advtree.AdvancedNode.copy, "_vf_wrapped", False):
        return
    orig = advtree.AdvancedNode.copy

    def copy(self):
        prof = sys.getprofile()
        sys.setprofile(None)
        try:
            new = orig(self)
        finally:
            sys.setprofile(prof)
        w = getattr(prof, "__self__", None)
        if isinstance(w, Work):
            w.count += 1 + sum(1 for _ in new.allchildren())
        return new

    copy._vf_wrapped = True
    advtree.AdvancedNode.copy = copy


def drive(case, want_c05=True, want_c06=True):
    """Returns dict(failures=[(prop, bucket, detail)], changed=set(pass names), nodes=int, parse_failure=bool)"""
    from mwlib.parser import advtree
    from mwlib.parser.treecleaner import TreeCleaner

    res = dict(failures=[], changed=set(), nodes=0, parse_failed=False)
    tree, work, fail = parse(case, budget=False)
    if fail:
        res["parse_failed"] = True  # C01's business
        return res
    try:
        advtree.build_advanced_tree(tree)
    except Exception as e:
        import traceback

        res["failures"].append(("C06", "exception:build_advanced_tree:" + repo_frame_bucket(e), traceback.format_exc()[-1500:]))
        return res
    v = validate(tree)
    if v:
        res["failures"].append(("C05", "after-build_advanced_tree:" + v, ""))
        return res
    tc = TreeCleaner(tree, save_reports=True)
    sig, nodes = signature(tree)
    res["nodes"] = nodes
    _uncounted_copy()
    raised = False
    for idx, name in enumerate(tc.cleaner_methods):
        budget = int(1e6 + 2e3 * nodes * nodes)
        w = Work(budget)
        try:
            with cpu_limit(CPU_LIMIT):
                with w:
                    getattr(tc, name)(tree)
        except StepBudgetExceeded:
            res["failures"].append(("C06", "hang:%s:step-budget" % name, "more than %d calls on %d nodes" % (budget, nodes)))
            return res
        except CpuAlarm:
            _cpu_hits[0] += 1
            res["failures"].append(("C06", "hang:%s:cpu-limit" % name, "%d nodes" % nodes))
            return res
        except RecursionError as e:
            res["failures"].append(("C06", "exception:%s:RecursionError" % name, "depth %r" % case.get("depth")))
            return res
        except Exception as e:
            import traceback

            res["failures"].append(("C06", "exception:%s:%s" % (name, repo_frame_bucket(e)), traceback.format_exc()[-1500:]))
            if not want_c05:
                return res
            # TreeCleaner.clean() swallows the exception and goes on with the next pass: C05 judges the tree the writer gets
            raised = True
        nsig, nodes = signature(tree)
        if nsig != sig:
            res["changed"].add(name)
            sig = nsig
        v = validate(tree) if want_c05 else None  # (C06 goes on: a malformed tree is C05's finding, what it does to later passes is C06's)
        if v:
            res["failures"].append(("C05", "after-%s:%s" % (name, v), "pass #%d" % idx))
            return res
        if raised:
            raised = False
            continue
        # fixed-point passes must have reached their fixed point
        if want_c06 and name in FIXED_POINT:
            try:
                again = getattr(tc, FIXED_POINT[name])(tree)
            except Exception as e:
                res["failures"].append(("C06", "exception:%s-again:%s" % (name, repo_frame_bucket(e)), repr(e)))
                return res
            if again:
                res["failures"].append(("C06", "no-fixed-point:%s" % name, "a further application still reports a change"))
                return res
        if want_c06 and name == "remove_breaking_returns":
            before = signature(tree)[0]
            try:
                tc.remove_breaking_returns(tree)
            except Exception as e:
                res["failures"].append(("C06", "exception:%s-again:%s" % (name, repo_frame_bucket(e)), repr(e)))
                return res
            if signature(tree)[0] != before:
                res["failures"].append(("C06", "no-fixed-point:remove_breaking_returns", "second application changed the tree"))
                return res
    v = contract(tree) if want_c05 else None
    if v:
        res["failures"].append(("C05", "contract:" + v, ""))
    return res


def clean_all_reports(case):
    """cross-check through the public path: clean_all() must not have swallowed an error"""
    from mwlib.parser import advtree
    from mwlib.parser.treecleaner import TreeCleaner

    tree, _, fail = parse(case, budget=False)
    if fail:
        return None
    advtree.build_advanced_tree(tree)
    tc = TreeCleaner(tree, save_reports=True)
    import contextlib
    import io

    with contextlib.redirect_stdout(io.StringIO()), contextlib.redirect_stderr(io.StringIO()):
        tc.clean_all()
    for rep in tc.get_reports() if hasattr(tc, "get_reports") else tc.reports:
        if "ERROR:" in repr(rep):
            return repr(rep)[:300]
    return None


def shrink_case(case, fails_same, budget_s=40.0):
    """ddmin over the lexeme list (and dropping the template db) - used for collect-mode buckets"""
    best = dict(case)
    if best.get("db") is not None:
        c2 = dict(best, db=None)
        if fails_same(c2):
            best = c2
    if len(best["parts"]) > 1:
        parts = ddmin(best["parts"], lambda ps: bool(ps) and fails_same(dict(best, parts=ps)), budget_s)
        if parts:
            best = dict(best, parts=parts)
    elif len(best["parts"]) == 1 and len(best["parts"][0]) > 8:
        chars = ddmin(list(best["parts"][0]), lambda cs: bool(cs) and fails_same(dict(best, parts=["".join(cs)])), budget_s)
        if chars:
            best = dict(best, parts=["".join(chars)])
    return best
