"""C11 - fetching a collection yields a complete and faithful archive."""
import copy
import os
import shutil
import traceback

from hypothesis import given, strategies as st

from ..ctx import jdump, repo_frame_bucket

META = dict(
    level="exploration",
    rule=(
        "Hypothesis draws a synthetic wiki (1-4 articles with 1-2 revisions, 0-3 templates forming a DAG with nested calls, 0-3 images "
        "used directly or only through templates, local or on a second 'commons' wiki with their description pages, redirects to an "
        "article or to nowhere, contributors with bots and anonymous counts), a metabook over it (titles, pinned older revisions, a "
        "missing page, redirect sources), API limits (titles per request, results per request with query-continue, contributors per "
        "request) in 1..50, the no-images option and a latency script (event-loop yields per request). make_nuwiki runs unmodified "
        "against a subclass of the real MwApi whose HTTP layer answers from the model; the result is read back with nuwiki.Adapt. "
        "Oracle (computed from the model): text of every listed existing article (requested revision else current, redirect resolved) "
        "== the server's expansion; image files == image closure incl. images reached only through nested templates (none with "
        "no-images), with bytes, imageinfo and description page; contributors of every article and image (bots excluded, anonymous "
        "counted); missing pages and dangling redirects do not fail the run; the run terminates; no request names more titles than the "
        "limit. Non-trivial: an image reached only through a nested template, or a redirect, or a continuation that was really served."
    ),
    assumptions=[
        "redirects are one level deep (the API resolves them itself); redirect cycles are not generated",
        "greenlet interleavings are sampled through the latency script, not enumerated",
        "a redirect's target is not at the same time listed with an older pinned revision (the quantifier)",
        "the download client is a stub that serves bytes derived from the URL",
    ],
    floors={"nontrivial": (0.4, None), "continuation-served": (0.25, None), "image-via-nested-template": (0.05, None)},
    stall_s=180,
)

WORDS = ["alpha", "beta", "gamma", "delta", "omega", "text", "lorem"]
NAMES = ["Alice", "Bob", "Carol", "Dan", "Eve", "SomeBot", "cleanupbot", "Frank"]


@st.composite
def wikis(draw):
    pid = [0]

    def newid():
        pid[0] += 1
        return pid[0]

    revid = [100]

    def newrev():
        revid[0] += draw(st.integers(1, 9))
        return revid[0]

    def contrib():
        return [sorted(draw(st.lists(st.sampled_from(NAMES), max_size=4, unique=True))), draw(st.integers(0, 3))]

    nimg = draw(st.integers(0, 5))
    images = ["File:Img%d.png" % i for i in range(1, nimg + 1)]
    ntmpl = draw(st.integers(0, 3))
    tmpls = ["Template:T%d" % i for i in range(1, ntmpl + 1)]
    pages = {}
    commons = {}
    for t in images:
        on_commons = draw(st.booleans())
        pages[t] = dict(ns=6, id=newid(), revs=[[newrev(), "local description of %s" % t]], redirect=None, contrib=contrib(), on_commons=on_commons)
        if on_commons:
            commons[t] = dict(id=newid(), text="commons description of %s" % t, contrib=contrib())

    def body(allowed_tmpls):
        parts = [draw(st.sampled_from(WORDS))]
        for _ in range(draw(st.integers(0, 3))):
            k = draw(st.sampled_from([0, 0, 1, 1, 2, 3]))
            if k == 0 and allowed_tmpls:
                parts.append("{{%s}}" % draw(st.sampled_from(allowed_tmpls)).split(":", 1)[1])
            elif k == 1 and images:
                parts.append("[[%s|thumb|cap]]" % draw(st.sampled_from(images)))
            else:
                parts.append(draw(st.sampled_from(WORDS)))
        return " ".join(parts)

    for i, t in reversed(list(enumerate(tmpls))):
        pages[t] = dict(ns=10, id=newid(), revs=[[newrev(), body(tmpls[i + 1:])]], redirect=None, contrib=contrib())
    arts = ["Art%d" % i for i in range(1, draw(st.integers(1, 4)) + 1)]
    for t in arts:
        revs = [[newrev(), body(tmpls)] for _ in range(draw(st.integers(1, 2)))]
        pages[t] = dict(ns=0, id=newid(), revs=revs, redirect=None, contrib=contrib())
    items = []
    pinned = set()
    for t in arts:
        if draw(st.integers(0, 3)) == 0:
            continue
        revs = pages[t]["revs"]
        if len(revs) > 1 and draw(st.booleans()):
            items.append([t, revs[0][0]])
            pinned.add(t)
            if draw(st.integers(0, 2)) == 0:
                items.append([t, None])  # the same article once more, at its current revision (two chapters of one book)
        else:
            items.append([t, None])
    for i in range(draw(st.integers(0, 2))):
        src = "Red%d" % (i + 1)
        free = [a for a in arts if a not in pinned]
        tgt = draw(st.sampled_from(free + ["Nowhere"])) if free else "Nowhere"
        pages[src] = dict(ns=0, id=newid(), revs=[[newrev(), "#REDIRECT [[%s]]" % tgt]], redirect=tgt, contrib=contrib())
        items.append([src, None])
    if draw(st.integers(0, 2)) == 0:
        items.append(["Missing page", None])
    if not items:
        items.append([arts[0], None])
    items = list(draw(st.permutations(items)))
    limits = dict(request=draw(st.sampled_from([1, 1, 2, 2, 3, 5, 50])), result=draw(st.sampled_from([1, 2, 3, 10, 50])), rv=draw(st.sampled_from([1, 2, 50])))
    if draw(st.booleans()):
        kinds = ["siteinfo", "imageinfo", "images", "revisions", "contributors", "expandtemplates", "parse", "error", "categories"]
        limits["kind_latency"] = {k: draw(st.sampled_from([0, 0, 1, 3, 8])) for k in draw(st.lists(st.sampled_from(kinds), max_size=3, unique=True))}
    if draw(st.integers(0, 3)) == 0:
        # a page that does not exist, listed so that it sorts after everything else
        items.append(["Zz missing", None])
    if draw(st.integers(0, 5)) == 0:
        # error answers that arrive after everything else while the request slots are saturated
        items += [["Zz missing", None], ["Zy missing", None]]
        items = [list(x) for x in dict.fromkeys(tuple(i) for i in items)]
        limits["request"] = draw(st.sampled_from([1, 2]))
        limits.setdefault("kind_latency", {})["error"] = draw(st.sampled_from([3, 8, 20]))
        limits["slow-errors"] = True
    latency = draw(st.lists(st.integers(0, 3), max_size=30))
    return dict(pages=pages, commons=commons, items=items, limits=limits, latency=latency, noimages=draw(st.integers(0, 4)) == 0)


def expected_authors(contrib):
    import re

    names = sorted(n for n in contrib[0] if not re.search(r"bot$", n, re.I))
    if names or contrib[1]:
        names.append("ANONIPEDITS:%d" % contrib[1])
    return names


def run_case(ctx, case):
    """returns set of labels"""
    import gevent
    from mwlib.apps import make_nuwiki as mn
    from mwlib.core import metabook, nuwiki
    from mwlib.network import fetch, sapi
    from mwlib.network.siteinfo import get_siteinfo
    from mwlib.utils.status import Status
    from mwlib.utils.unorganized import fs_escape
    from .. import synthwiki as SW

    labels = set()
    model = SW.Model(case)
    log = SW.Log()
    si = get_siteinfo("en")
    orig_api = sapi.MwApi
    if not hasattr(sapi, "_vf_real_MwApi"):
        sapi._vf_real_MwApi = sapi.MwApi
    real = sapi._vf_real_MwApi
    saved_mod = sapi.MwApi
    sapi.MwApi = real
    Synth = SW.make_api_class(real, model, {"local": si, "commons": si}, log, list(case["latency"]), case["limits"])
    sapi.MwApi = Synth
    # every module that imported the class by name
    patched = []
    import sys

    for modname in ("mwlib.network.fetch", "mwlib.apps.make_nuwiki", "mwlib.network.sapi"):
        mod = sys.modules.get(modname)
        for attr in ("MwApi",):
            if mod is not None and getattr(mod, attr, None) is not None and getattr(mod, attr) is not Synth:
                patched.append((mod, attr, getattr(mod, attr)))
                setattr(mod, attr, Synth)

    class Resp:
        def __init__(self, b):
            self.b = b

        def __enter__(self):
            return self

        def __exit__(self, *a):
            return False

        def raise_for_status(self):
            pass

        def iter_bytes(self, chunk_size=16384):
            for i in range(0, len(self.b), 11):
                yield self.b[i:i + 11]

    class Client:
        def stream(self, m, url):
            gevent.sleep(0)
            return Resp(("IMG:" + url).encode("utf-8") * 5)

    old_client = fetch._get_download_client
    fetch._get_download_client = lambda url: Client()
    fetch.Fetcher.titles_pending_contributor_lookup.clear()
    fetch.Fetcher.title_mapping.clear()
    from mwlib.utils import conf

    saved_conf = {}
    if not conf.config.has_section("fetch"):
        conf.config.add_section("fetch")
    for key, val in (("api_request_limit", case["limits"]["request"]), ("api_result_limit", case["limits"]["result"]), ("rvlimit", case["limits"]["rv"])):
        saved_conf[key] = conf.config["fetch"].get(key)
        conf.config["fetch"][key] = str(val)
    out = os.path.join(ctx.workdir, "c11-%d" % os.getpid())
    shutil.rmtree(out, ignore_errors=True)

    def F(bucket, detail):
        ctx.fail(bucket, case, detail)

    w = None
    try:
        mb = metabook.Collection(title="B")
        for title, rev in case["items"]:
            mb.append_article(title, revision=rev)
        mb.wikis.append(metabook.WikiConf(baseurl="http://wiki.test/w/"))
        st_ = Status(None)
        st_.stdout = None
        opts = {"script_extension": ".php", "imagesize": 800}
        if case["noimages"]:
            opts["noimages"] = True
        try:
            with gevent.Timeout(60):
                import contextlib
                import io

                with contextlib.redirect_stdout(io.StringIO()):
                    mn.make_nuwiki(out, metabook=mb, wiki_options=opts, pod_client=None, status=st_)
        except gevent.Timeout:
            F("hang:fetch-did-not-terminate", "no termination within 60 s")
            return labels
        except Exception as e:
            F("exception:" + repo_frame_bucket(e), traceback.format_exc()[-1800:])
            return labels
        w = nuwiki.Adapt(out)
        fetched_imgs = []
        for title, rev in case["items"]:
            p = model.page(title)
            if p is None:
                labels.add("missing-page")
                continue
            if p.get("redirect"):
                labels.add("redirect")
                tgt = model.page(p["redirect"])
                if tgt is None:
                    labels.add("dangling-redirect")
                    continue
                want = model.expand(tgt["revs"][-1][1])
                who = p["redirect"]
            elif rev is not None:
                labels.add("pinned-revision")
                if [title, None] in case["items"]:
                    labels.add("pinned-and-current-of-one-article")
                want = model.expand(model.text_of(title, rev))
                who = title
            else:
                want = model.expand(p["revs"][-1][1])
                who = title
            try:
                page = w.get_page(title, revision=rev) if rev is not None else w.get_page(title)
            except Exception as e:
                F("exception:read-back:" + repo_frame_bucket(e), repr(e))
                continue
            got = None if page is None else page.rawtext
            if got != want:
                F("text:" + ("article-missing-from-archive" if got is None else "differs-from-served-expansion") + (":redirect" if p.get("redirect") else ":pinned" if rev else ""),
                  "%r (rev %r): archive has %r, the wiki serves %r" % (title, rev, got, want))
            for im in model.images_in(want):
                if im not in fetched_imgs:
                    fetched_imgs.append(im)
                direct = model.images_in(model.text_of(who, rev if who == title else None) or "")
                if im not in direct:
                    labels.add("image-via-nested-template")
            # contributors, asked for under the title the metabook lists (a redirect source resolves to its target's)
            try:
                authors = w.get_authors(title)
            except Exception as e:
                F("exception:get_authors:" + repo_frame_bucket(e), repr(e))
                authors = "exception"
            wanta = expected_authors(model.page(who)["contrib"])
            if authors != "exception" and (authors or []) != wanta:
                F("authors:article", "%r: archive says %r, the wiki reports %r" % (who, authors, wanta))
        # images
        imgdir = os.path.join(out, "images")
        have = sorted(f for f in os.listdir(imgdir) if f != "safe") if os.path.isdir(imgdir) else []
        want_imgs = [] if case["noimages"] else fetched_imgs
        want_files = sorted(fs_escape(t) for t in want_imgs)
        if have != want_files:
            missing = sorted(set(want_files) - set(have))
            extra = sorted(set(have) - set(want_files))
            F("images:" + ("missing" if missing else "unexpected"), "missing %r unexpected %r (closure %r)" % (missing, extra, want_imgs))
        for t in want_imgs:
            name = t.split(":", 1)[1].replace(" ", "_")
            where = "commons.test" if model.page(t).get("on_commons") else "wiki.test"
            path = os.path.join(imgdir, fs_escape(t))
            if os.path.exists(path):
                with open(path, "rb") as f:
                    data = f.read()
                if data != ("IMG:http://%s/thumb/%s" % (where, name)).encode("utf-8") * 5:
                    F("images:wrong-bytes", "%r holds %r" % (t, data[:60]))
            try:
                info = w.nuwiki.imageinfo.get(t) if hasattr(w.nuwiki.imageinfo, "get") else None
            except Exception:
                info = None
            if not info:
                F("images:no-imageinfo", "%r has no imageinfo entry" % t)
            dp = w.get_page(t)
            wantd = model.commons[t]["text"] if model.page(t).get("on_commons") else model.page(t)["revs"][-1][1]
            if dp is None or dp.rawtext != wantd:
                F("images:description-page", "%r: archive has %r, expected %r" % (t, None if dp is None else dp.rawtext, wantd))
            wanta = expected_authors(model.commons[t]["contrib"] if model.page(t).get("on_commons") else model.page(t)["contrib"])
            try:
                authors = w.get_authors(t)
            except Exception as e:
                authors = "exception %r" % e
            if (authors or []) != wanta:
                F("authors:image", "%r: archive says %r, the wiki reports %r" % (t, authors, wanta))
            if model.page(t).get("on_commons"):
                labels.add("second-api")
        # request discipline
        for q in log.requests:
            if "titles" in q and len(q["titles"].split("|")) > case["limits"]["request"]:
                F("requests:batch-larger-than-limit", "%d titles in one request, limit %d: %r" % (len(q["titles"].split("|")), case["limits"]["request"], q))
                break
        if any(k.endswith("continue") for q in log.requests for k in q):
            labels.add("continuation-served")
        if case["noimages"]:
            labels.add("no-images")
        if case["limits"].get("slow-errors"):
            labels.add("slow-error-answers")
        ctx.note("api_requests", len(log.requests))
    finally:
        for key, val in saved_conf.items():
            if val is None:
                conf.config.remove_option("fetch", key)
            else:
                conf.config["fetch"][key] = val
        sapi.MwApi = real
        for mod, attr, old in patched:
            setattr(mod, attr, old)
        fetch._get_download_client = old_client
        # every SqliteDict of the archive runs a thread of its own: close them, or tens of thousands of cases exhaust the process
        for name in ("authors", "html", "imageinfo"):
            db = getattr(getattr(w, "nuwiki", None), name, None)
            try:
                getattr(db, "database", db).close()
            except Exception:
                pass
        shutil.rmtree(out, ignore_errors=True)
    return labels


def replay(ctx, case):
    run_case(ctx, case)


def run_shard(ctx):
    @ctx.settings(ctx.n(6400, 64000))
    @given(wikis())
    def t(case):
        ctx.announce(case)
        labels = run_case(ctx, case)
        nt = bool(labels & {"image-via-nested-template", "redirect", "continuation-served"})
        ls = sorted(labels) + (["nontrivial"] if nt else [])
        ctx.record(jdump(case), ls, nt, sample=dict(items=case["items"], limits=case["limits"], noimages=case["noimages"],
                                                    pages={k: v["revs"][-1][1] for k, v in case["pages"].items()}))

    ctx.run_given(t)
