"""C19 - render status is faithful to the job's real state."""
import json
import urllib.parse

from hypothesis import given, strategies as st

from ..ctx import jdump
from ..qengine import Checker, Violation

CID = "0123456789abcdef"
WRITERS = {"rl": ("pdf", "application/pdf"), "odf": ("odt", "application/vnd.oasis.opendocument.text")}

META = dict(
    level="exploration",
    rule=(
        "Hypothesis histories (2-12, thorough 16 operations) of the fetch job '<id>:makezip' and the render jobs '<id>:render-rl' / "
        "'<id>:render-odf' of one collection on the real workq (owned-schedule engine of C16): added / pulled / qsetinfo updates / "
        "finished with result dict (url, size, suggested_filename over printable Unicode) or without / error / killed / timed out / "
        "dropped after TTL / re-added. After EVERY step Application.do_render_status is called for both writers with its queue proxy "
        "bound in-process to the real queue through a JSON round trip; oracle = state mapping computed from the model of the queried "
        "writer's render job + header grammar/round-trip of content_disposition. Non-trivial: the history reaches >= 3 distinct "
        "(render-state, fetch-state) pairs including a terminal one."
    ),
    assumptions=[
        "suggested filenames are printable Unicode (no control characters), per the quantifier",
        "error strings are non-empty; finish(error='') is not generated",
        "the progress text shown once the fetch job is finished is not asserted (only state == 'progress')",
    ],
    floors={"finished-seen": (0.10, None), "failed-seen": (0.10, None), "other-writer-finished": (0.02, None), "dropped-after-ttl": (0.02, None)},
)

printable = st.characters(blacklist_categories=("Cc", "Cs", "Zl", "Zp", "Cf", "Co", "Cn"))
import unicodedata  # noqa: E402

# printable characters whose compatibility decomposition contains header-special ASCII (fullwidth ';', '"', ',' ...):
# the ASCII fallback name is built by NFKD transliteration, so these are the inputs that can smuggle a separator in
COMPAT_SPECIALS = [chr(c) for c in range(0x80, 0x30000)
                   if unicodedata.category(chr(c))[0] not in "CZ"
                   and any(x in unicodedata.normalize("NFKD", chr(c)) for x in ' ;:"\',\\/=()<>@[]?{}\r\n\t')]
compat_name = st.lists(st.one_of(st.sampled_from(COMPAT_SPECIALS), st.sampled_from(list("abcXYZ 12"))), min_size=1, max_size=8).map("".join)
filename = st.one_of(st.text(printable, max_size=12), compat_name,
                     st.sampled_from(["", " ", "Über Bücher", "a;b", 'x"y', "日本語", "a,b c", "it's", "résumé.v2", "..", "%41", "a/b", "a\\b", "=?", "😀 book"]))
result = st.one_of(
    st.none(),
    st.fixed_dictionaries({"url": st.sampled_from(["http://h/x.pdf", "http://h/ü.odt"]), "size": st.integers(0, 10 ** 7)},
                          optional={"suggested_filename": filename}),
)
info = st.fixed_dictionaries({}, optional={"status": st.sampled_from(["fetching", "rendering", "parsing", ""]),
                                            "progress": st.integers(0, 100), "article": filename})
JOBS = ["%s:makezip" % CID, "%s:render-rl" % CID, "%s:render-odf" % CID]
CHAN = {JOBS[0]: "makezip", JOBS[1]: "render", JOBS[2]: "render"}
job = st.sampled_from(JOBS)
w = st.integers(1, 3)


def step():
    return st.one_of(
        job.map(lambda j: ["add", CHAN[j], 0, j, 1200, []]),
        job.map(lambda j: ["add", CHAN[j], 0, j, 1200, []]),
        st.tuples(w, st.sampled_from([["makezip"], ["render"], []])).map(lambda t: ["pull", t[0], t[1]]),
        st.just(["run"]), st.just(["run"]),
        st.tuples(job, info).map(lambda t: ["setinfo", t[0], t[1]]),
        st.tuples(w, st.integers(0, 1), result).map(lambda t: ["finishr", t[0], t[1], t[2], None]),
        st.tuples(w, st.integers(0, 1), st.sampled_from(["boom", "RuntimeError: x", "killed", "ü"])).map(lambda t: ["finishr", t[0], t[1], None, t[2]]),
        job.map(lambda j: ["killid_str", j]),
        st.sampled_from([["advance", 60], ["advance", 1300], ["advance", 4000], ["dropdead"], ["disconnect", 1, [0]]]),
    )


@st.composite
def lifecycle(draw):
    """the usual order of events for one writer, with a drawn ending; random steps are interleaved around it"""
    wr = draw(st.sampled_from(["rl", "odf"]))
    r = "%s:render-%s" % (CID, wr)
    out = [["add", "makezip", 0, JOBS[0], 1200, []], ["add", "render", 0, r, 1200, []]]
    if draw(st.booleans()):
        out += [["pull", 1, ["makezip"]], ["run"], ["setinfo", JOBS[0], draw(info)]]
        out += [["finishr", 1, 0, None, draw(st.sampled_from([None, None, "fetch failed"]))]]
    out += [["pull", 2, ["render"]], ["run"]]
    if draw(st.booleans()):
        out += [["setinfo", r, draw(info)]]
    end = draw(st.sampled_from([0, 0, 0, 1, 2, 3, 4]))
    if end == 0:
        out += [["finishr", 2, 0, draw(result), None]]
    elif end == 1:
        out += [["finishr", 2, 0, None, "boom"]]
    elif end == 2:
        out += [["killid_str", r]]
    elif end == 3:
        out += [["advance", 1300]]
    if draw(st.integers(0, 3)) == 0:
        out += [["dropdead"], ["advance", 4000], ["dropdead"]]  # finished jobs are dropped after their time-to-live
    return out


def check_disposition(cd, suggested, ext):
    if not all(0x20 <= ord(c) < 0x7F for c in cd):
        return "not printable ASCII: %r" % cd
    parts = cd.split(";")
    if parts[0] != "inline" or len(parts) not in (2, 3) or not parts[1].startswith(" filename="):
        return "parameter layout: %r" % cd
    fn = parts[1][len(" filename="):]
    if not fn.endswith("." + ext) or len(fn) <= len(ext) + 1 or any(c in fn for c in ' ";,\''):
        return "filename token %r" % fn
    want = ((suggested or "").strip() or "collection") + "." + ext
    if len(parts) == 3:
        if not parts[2].startswith("filename*=UTF-8''"):
            return "extended parameter %r" % parts[2]
        dec = urllib.parse.unquote(parts[2][len("filename*=UTF-8''"):])
        if dec != want:
            return "filename* decodes to %r, suggested name gives %r" % (dec, want)
    elif fn != want:
        # without filename*, the plain token must already be the whole name
        return "no filename* although the ASCII token %r differs from %r" % (fn, want)
    return None


class StatusChecker(Checker):
    def __init__(self):
        Checker.__init__(self, props=("C19",))
        from mwlib.core import nserve

        self.app = nserve.Application()
        eng = self.eng

        class Proxy:
            def qinfo(self, jobid):
                return json.loads(json.dumps(eng.info(json.loads(json.dumps(jobid)))))

        self.app.qserve = Proxy()
        self.seen = set()

    def check_sync(self):
        Checker.check_sync(self)
        zj = self.jobs.get(JOBS[0])
        zstate = "absent" if zj is None or self.dropped(JOBS[0]) else ("done" if zj.done else "open")
        for wr, (ext, ctype) in WRITERS.items():
            rid = "%s:render-%s" % (CID, wr)
            rj = self.jobs.get(rid)
            if rj is not None and self.dropped(rid):
                rj = None
            try:
                got = self.app.do_render_status(CID, {"writer": wr})
            except Exception as e:
                raise Violation("C19:status-raised", "step %d: do_render_status(writer=%s) raised %r" % (self.step_no, wr, e))
            rstate = "absent" if rj is None else ("failed" if rj.done and rj.error else "finished" if rj.done else "open")
            self.seen.add((wr, rstate, zstate))
            where = "step %d writer %s: render job %s, fetch job %s; status %r" % (self.step_no, wr, rstate, zstate, got)
            if got.get("collection_id") != CID or got.get("writer") != wr:
                raise Violation("C19:wrong-identity", where)
            st_ = got.get("state")
            if rstate == "finished":
                if st_ != "finished":
                    raise Violation("C19:finished-not-reported", where)
                res = rj.result or {}
                if "url" in res and (got.get("url") != res["url"] or got.get("content_length") != res.get("size")):
                    raise Violation("C19:wrong-url-or-size", where + " result %r" % (res,))
                if got.get("content_type") != ctype:
                    raise Violation("C19:wrong-content-type", where)
                bad = check_disposition(got.get("content_disposition", ""), res.get("suggested_filename") if "url" in res else None, ext)
                if bad:
                    raise Violation("C19:unsafe-content-disposition", where + ": " + bad)
                self.labels.add("finished-seen")
                other = self.jobs.get("%s:render-%s" % (CID, "odf" if wr == "rl" else "rl"))
                if other is None or not other.done:
                    self.labels.add("only-this-writer-finished")
            elif rstate == "failed":
                if st_ != "failed" or got.get("error") != rj.error:
                    raise Violation("C19:failure-not-reported", where + " expected error %r" % (rj.error,))
                self.labels.add("failed-seen")
            else:
                if st_ == "finished":
                    other = self.jobs.get("%s:render-%s" % (CID, "odf" if wr == "rl" else "rl"))
                    kind = "other-writer" if other is not None and other.done and not other.error else "unfinished-job"
                    raise Violation("C19:success-reported-for-%s" % kind, where)
                if st_ != "progress":
                    raise Violation("C19:progress-not-reported", where)
                other = self.jobs.get("%s:render-%s" % (CID, "odf" if wr == "rl" else "rl"))
                if other is not None and other.done and not other.error and not self.dropped(other.jobid):
                    self.labels.add("other-writer-finished")
                if rj is not None and rj.info:
                    if got.get("status") != rj.info:
                        raise Violation("C19:render-progress-not-shown", where + " render info %r" % (rj.info,))
                    self.labels.add("render-progress-shown")
                elif zstate == "open":
                    if got.get("status") != zj.info:
                        raise Violation("C19:fetch-progress-not-shown", where + " fetch info %r" % (zj.info,))
                    if zj.info:
                        self.labels.add("fetch-progress-shown")


def run_history(steps):
    ck = StatusChecker()
    try:
        try:
            for s in steps:
                ck.step(s)
        except Violation as v:
            return v, ck.labels, ck.seen
        return None, ck.labels, ck.seen
    finally:
        ck.close()


def replay(ctx, case):
    v, _, _ = run_history(case["steps"])
    if v is not None:
        ctx.fail(v.bucket, case, v.detail)


def run_shard(ctx):
    nsteps = 16 if ctx.thorough else 12
    chunk = st.one_of(step().map(lambda s: [s]), step().map(lambda s: [s]), lifecycle())

    @ctx.settings(ctx.n(16000, 400000), shrink=True)
    @given(st.one_of(lifecycle(), lifecycle(), st.just([])), st.lists(chunk, min_size=1, max_size=nsteps))
    def t(first, chunks):
        steps = (first + [s for c in chunks for s in c])[: nsteps + 8]
        case = dict(steps=steps)
        ctx.announce(case)
        v, labels, seen = run_history(steps)
        states = {(r, z) for _, r, z in seen}
        nt = len(states) >= 3 and any(r in ("finished", "failed") for r, _ in states)
        ls = sorted(labels & {"finished-seen", "failed-seen", "other-writer-finished", "render-progress-shown", "fetch-progress-shown",
                              "dropped-after-ttl", "timeout", "kill", "info-update", "re-add-after-kill", "only-this-writer-finished"})
        if nt:
            ls.append("nontrivial")
        ctx.record(jdump(steps), ls, nt, sample=dict(steps=steps, states=sorted(states)))
        if v is not None:
            ctx.fail(v.bucket, case, v.detail, raise_=True)

    ctx.run_given(t)
