"""C16 - the job queue neither loses nor duplicates a job, under any interleaving."""
from . import _queue

PROPS = ("C16",)
META = dict(
    level="exploration",
    rule=(
        "Histories over {add(channel, priority, id, timeout), start-pull(worker, channels), let-the-event-loop-run, finish, kill, "
        "advance-clock+handle-timeouts, worker-disconnect} executed on the real workq/QPlugin with the harness owning clock, "
        "random.choice and every greenlet switch. (1) exhaustive: all histories of <= 5 (thorough 6) operations over a 12-operation "
        "reduced alphabet (2 workers, both choice alternatives); (2) Hypothesis lists of 2-10 (thorough 14) operations over the full "
        "alphabet (3 workers, 2 channels, 4 named ids + auto ids), shrunk on failure. Oracle after every step and at a final drain: "
        "every accepted unfinished job is held by exactly one connection or delivered to a blocked/fresh eligible puller; no job is "
        "handed to two workers or more often than once per enqueueing. Non-trivial: the history contains a push while a puller is "
        "blocked, two pushes in one scheduling quantum, a holder disconnect, a timeout or a disconnect of a blocked worker."
    ),
    assumptions=[
        "gevent is cooperative: code between two yields is atomic, so the operation order of a history is the schedule",
        "one request at a time per connection (as rpcserver.handle_client serves them); workers finish jobs on their own connection",
        "a disconnect of a connection that is inside a blocking request takes effect when the event loop runs",
        "the internal cross-check reads workq.channel2q and QPlugin.running_jobs (the state the property's anchors name) and is skipped if absent",
    ],
    floors={"push-while-puller-blocked": (0.08, "random"), "two-pushes-in-one-quantum": (0.04, "random"),
            "holder-disconnect": (0.02, "random"), "timeout": (0.04, "random")},
)


def run_shard(ctx):
    _queue.run_shard(ctx, "C16", PROPS, extended=False, restart=False, quick_len=5, thorough_len=6,
                     quick_n=20000, thorough_n=400000)


def replay(ctx, case):
    _queue.replay(ctx, case, PROPS)
