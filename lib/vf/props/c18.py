"""C18 - saving and restoring the queue preserves every job."""
from . import _queue

PROPS = ("C16", "C17", "C18")
META = dict(
    level="exploration",
    rule=(
        "Same engine; a restart step (pickle the db as qserve.Main.savedb does, drop every connection, continue on the unpickled "
        "copy) is inserted at EVERY position of every generated history: exhaustive histories of <= 4 (thorough 5) operations over "
        "the 12-operation reduced alphabet x every cut, and Hypothesis histories of 2-10 (thorough 14) operations (which may contain "
        "further restarts) x every cut. After the restart the C16/C17 oracles keep running against the model, in which held jobs are "
        "queued again with their original priority/age and deadline, finished jobs keep result/error, new ids must be unused. "
        "Non-trivial: a restart with >= 1 held and >= 1 finished job, or any C16/C17 non-trivial label after a restart."
    ),
    assumptions=[
        "save/restore is pickle.dumps/loads of qserve.db (what savedb/loaddb do), taken between two scheduler quanta",
        "per-channel outcome counters are not part of the saved state and restart from zero (not claimed by the property)",
    ],
    floors={"restart-with-held-and-done": (0.02, "random")},
)


def run_shard(ctx):
    _queue.run_shard(ctx, "C18", PROPS, extended=True, restart=True, quick_len=4, thorough_len=5,
                     quick_n=3000, thorough_n=60000, restart_everywhere=True)


def replay(ctx, case):
    _queue.replay(ctx, case, PROPS)
