"""C07 - cleaning is lossless for ordinary content."""
from hypothesis import given

from ..ctx import jdump, repo_frame_bucket
from ..models import treeproj as T
from . import _doc

META = dict(
    level="exploration",
    rule=(
        "Documents of C02's grammar (every section with body text and a generated-word title, tables of at most 3x3 cells far below the "
        "cleaner's size heuristics, no no-print classes / hidden styles / category or language links / edit links / .ogg files, unique "
        "link targets, reference text longer than one character), 12 languages. The sequence of (word, section path identified by heading "
        "word, list-item nesting depth and list kinds, reference ordinal) read off the tree before TreeCleaner(tree).clean_all() must "
        "equal the one read off afterwards: every visible word once, same reading order, same section, same item nesting, same "
        "reference. Words of a table that the source gave >= 2 columns and >= 2 rows must still sit under a Table. "
        "Non-trivial: the document has a table or a nested list and cleaning changed the tree."
    ),
    assumptions=[
        "restructuring that the projection does not see (definition-list wrappers, paragraph removal, pre splitting, dissolving tables "
        "smaller than 2x2 into their cell contents) is allowed by the statement",
        "the 'before' placement is read from the parsed tree (C02 establishes that it is the denoted one)",
        "a table holds at most two nested tables: a two-column table with three or more bordered nested tables is a layout table by the "
        "cleaner's documented heuristic (split_table_to_columns linearises it column by column) and is not ordinary content",
    ],
    floors={"nontrivial": (0.4, None), "table": (0.2, None), "nested-list": (0.15, None)},
)


def table_shape(doc):
    """words of tables that the source gave >= 2 columns and >= 2 rows (by the generator's expected chains)"""
    # count rows/cols per table occurrence from the source text is awkward; use the expected chains: group consecutive words by table
    return None


def check(ctx, doc):
    from mwlib.parser.treecleaner import TreeCleaner

    try:
        tree = _doc.parse(doc)
        before = T.placement(tree)
        sig0 = len(list(tree.allchildren()))
        import contextlib
        import io

        tc = TreeCleaner(tree, save_reports=True)
        with contextlib.redirect_stdout(io.StringIO()), contextlib.redirect_stderr(io.StringIO()):
            tc.clean_all()
        after = T.placement(tree)
        changed = len(list(tree.allchildren())) != sig0
    except Exception as e:
        ctx.fail("exception:" + repo_frame_bucket(e), doc, repr(e))
        return False
    bw, aw = [x[0] for x in before], [x[0] for x in after]
    exp = {w: tuple(c) for w, c in doc["expected"]}
    # a row with a cell above the page-height estimate is split into several rows (split_big_table_cells, documented): reading
    # order *inside that source row* is two-dimensional, so its words are compared as a block (all present once, block in place)
    rowof = {w: i for i, r in enumerate(doc.get("tall_rows") or []) for w in r}
    if rowof and sorted(bw) == sorted(aw):
        def blocks(ws):
            out = []
            for w in ws:
                tok = ("row", rowof[w]) if w in rowof else w
                if not (out and out[-1] == tok and w in rowof):
                    out.append(tok)
            return out

        if blocks(bw) == blocks(aw):
            pos = {w: i for i, w in enumerate(bw)}
            after = sorted(after, key=lambda x: pos[x[0]])
            aw = [x[0] for x in after]
    if bw != aw:
        lost = [w for w in bw if w not in aw]
        dup = sorted({w for w in aw if aw.count(w) > 1})
        if lost:
            kinds = sorted({"caption" if "Caption" in exp.get(w, ()) else "heading" if "Heading" in exp.get(w, ()) else "ref" if "Ref" in exp.get(w, ()) else
                            "cell" if any(x.startswith("Cell") for x in exp.get(w, ())) else "item" if "Item" in exp.get(w, ()) else "other" for w in lost})
            ctx.fail("word-lost:" + "+".join(kinds), doc, "lost %r" % lost[:8])
        elif dup:
            ctx.fail("word-duplicated", doc, "duplicated %r" % dup[:8])
        else:
            ctx.fail("reading-order-changed", doc, "before %r after %r" % (bw[:15], aw[:15]))
        return changed
    for b, a in zip(before, after):
        if b[1] != a[1]:
            ctx.fail("moved-to-other-section", doc, "word %r: section path %r -> %r" % (b[0], b[1], a[1]))
            return changed
        if b[2] != a[2] or b[3] != a[3]:
            ctx.fail("list-nesting-changed", doc, "word %r: item depth/kinds %r %r -> %r %r" % (b[0], b[2], b[3], a[2], a[3]))
            return changed
    # reference grouping: words that shared a reference before still do, and no others joined
    def groups(pl):
        g = {}
        for w, _, _, _, ref, _ in pl:
            if ref is not None:
                g.setdefault(ref, []).append(w)
        return sorted(g.values())

    if groups(before) != groups(after):
        ctx.fail("reference-membership-changed", doc, "%r -> %r" % (groups(before)[:5], groups(after)[:5]))
        return changed
    # tables with >= 2 columns and >= 2 rows remain tables
    big = doc.get("big_table_words") or []
    intable = {x[0] for x in after if x[5]}
    gone = [w for w in big if w not in intable]
    if gone:
        ctx.fail("table-2x2-dissolved", doc, "words %r of a table with >= 2 rows and >= 2 columns are no longer inside a table" % gone[:6])
    return changed


def replay(ctx, case):
    _doc.warmup()
    check(ctx, case)


FUZZ_IMPORTS = ['mwlib.parser.refine.uparser', 'mwlib.parser.refine.core', 'mwlib.parser.refine.compat', 'mwlib.parser.expander', 'mwlib.parser.refine.parse_table', 'mwlib.parser.refine.tagparser', 'mwlib.parser.styleanalyzer', 'mwlib.parser.nodes', 'mwlib.parser.advtree', 'mwlib.parser.treecleaner', 'mwlib.parser.treecleanerhelper']


def run_shard(ctx):
    _doc.warmup()
    @ctx.settings(ctx.n(16000, 240000))
    @given(_doc.documents(restricted=True))
    def t(doc):
        ctx.announce(doc)
        labels, nt0 = _doc.doc_labels(doc)
        changed = check(ctx, doc)
        nt = ("table" in labels or "nested-list" in labels) and bool(changed)
        if nt:
            labels.append("nontrivial")
        ctx.record(doc["lang"] + doc["src"], labels, nt, sample=dict(lang=doc["lang"], src=doc["src"][:600], words=len(doc["expected"])))

    ctx.run_given(t)
    ctx.fuzz_campaign("", (0, 160000))

    # line-based ddmin of one representative per bucket (the oracle compares the tree before/after cleaning, so a reduced
    # source needs no regenerated expectation)
    from ..shrink import ddmin

    class _B:
        def __init__(self):
            self.b = set()

        def fail(self, bucket, case, detail=""):
            self.b.add(bucket)

    for bucket, f in list(ctx.failures.items())[:5]:
        doc = f["case"]

        def same(lines, doc=doc, bucket=bucket):
            c = _B()
            check(c, dict(doc, src="\n".join(lines) + "\n", big_table_words=[]))
            return bucket in c.b

        lines = doc["src"].split("\n")
        if bucket != "table-2x2-dissolved" and same(lines):
            small = ddmin(lines, same, 40.0)
            f["case"] = dict(doc, src="\n".join(small) + "\n", big_table_words=[], expected=[e for e in doc["expected"] if e[0] in "\n".join(small)])
            f["size"] = len(jdump(f["case"]))
