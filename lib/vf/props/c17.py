"""C17 - jobs go to eligible workers in priority/FIFO order; finished stays finished."""
from . import _queue

PROPS = ("C17",)
META = dict(
    level="exploration",
    rule=(
        "Same engine as C16 with the alphabet extended by wait(client, jobs), re-add(existing id), late reports, dropdead and a "
        "long clock advance. (1) exhaustive: all histories of <= 4 (thorough 5) operations over a 15-operation reduced alphabet; "
        "(2) Hypothesis lists of 2-10 (thorough 14) operations. Oracle: a delivered job is of a requested channel, not finished, "
        "and - whenever no puller was blocked, so the queue content is known without prediction - the minimal (priority, age) "
        "candidate; queue-reported done/result/error always equal the first outcome in the history; waiters are released exactly "
        "when their jobs are finished; re-adding an id returns it without a second job; per-channel counters add up. "
        "Non-trivial: ordering checked on >= 2 candidates, a late report, a released waiter, a re-add, a timeout or a holder disconnect."
    ),
    assumptions=[
        "the ordering clause is only asserted for pulls that did not block and when no other puller was blocked at that moment "
        "(otherwise the set of queued candidates is not observable without predicting hand-offs)",
        "late reports are only generated for the current generation of a job id (a killed id that was re-added is a new job)",
        "finish is never called with error='' (falsy non-None), which the counters do not classify",
    ],
    floors={"ordering-checked-on-2+-candidates": (0.06, "random"), "late-report": (0.005, "random"), "wait-released": (0.02, "random"),
            "timeout": (0.05, "random")},
)


def run_shard(ctx):
    _queue.run_shard(ctx, "C17", PROPS, extended=True, restart=False, quick_len=4, thorough_len=5,
                     quick_n=20000, thorough_n=400000)


def replay(ctx, case):
    _queue.replay(ctx, case, PROPS)
