"""Child process for C20: runs ONE producer between two marker stat() calls.
usage: python -m vf.c20_producer <producer> <workdir> <prestate: absent|previous> [<output directory>]
The final path is <workdir>/final.<ext>.  Prints 'RESULT ok' or 'RESULT raised <type>' at the end."""
import json
import logging
import os
import shutil
import sys


def mark(name):
    try:
        os.stat("/nonexistent/VF_MARK_" + name)
    except OSError:
        pass


PAYLOAD_NEW = b"NEWIMAGE" + bytes(range(256)) * 200  # 51 KB, several chunks
PAYLOAD_OLD = b"OLDIMAGE" + b"o" * 30000


def prepare_nuwiki_dir(path, marker):
    from mwlib.core import metabook
    from mwlib.network import fetch
    from mwlib.network.siteinfo import get_siteinfo

    fs = fetch.FsOutput(path)
    fs.write_siteinfo(get_siteinfo("en"))
    fs.nfo = {"format": "nuwiki", "base_url": "http://example.org/w/", "script_extension": ".php", "marker": marker}
    text = "== Heading ==\n" + ("Some text for the article wq%s. " % marker) * 40 + "\n\n* item one\n* item two\n"
    fs.write_pages({"pages": {"1": {"title": "Article", "ns": 0, "revisions": [{"revid": 11, "*": text}]}}})
    fs.write_redirects({})
    fs.write_licenses([])
    mb = metabook.Collection()
    mb.append_article("Article")
    fs.dump_json(metabook=mb)
    fs.write_authors()
    fs.write_html()
    fs.imageinfo.close()
    fs.close()
    return path


def main():
    producer, workdir, prestate = sys.argv[1:4]
    logging.disable(logging.CRITICAL)
    from vf import build

    build.install()
    ext = {"status": "json", "create_zip": "zip", "make_zip": "zip", "download": "bin", "render_rl": "pdf", "render_odf": "odt"}[producer]
    final = os.path.join(sys.argv[4] if len(sys.argv) > 4 else workdir, "final." + ext)
    result = "ok"
    # ---- preparation (outside the bracket) -----------------------------------------------------
    if producer == "status":
        from mwlib.utils.status import Status

        s = Status(final)
        s.stdout = None

        def run():
            s(status="fetching", progress=10)
            s(status="b" * 5000, progress=50, article="Über")
            s(status="finished", progress=100)
    elif producer in ("create_zip", "make_zip"):
        from mwlib.apps import buildzip

        src = prepare_nuwiki_dir(os.path.join(workdir, "src-nuwiki"), "new")
        if producer == "create_zip":
            def run():
                buildzip.ZipCreator.create_zip(src, final)
        else:
            def fake_make_nuwiki(fsdir, metabook=None, wiki_options=None, pod_client=None, status=None):
                shutil.copytree(src, fsdir)

            buildzip.make_nuwiki = fake_make_nuwiki

            def run():
                buildzip.make_zip(output=final, wiki_options={}, metabook=None)
    elif producer == "download":
        import httpx
        from mwlib.network import fetch

        class Resp:
            def __init__(self, status):
                self.status_code = status

            def raise_for_status(self):
                if self.status_code != 200:
                    raise httpx.HTTPStatusError("429", request=None, response=self)

            def iter_bytes(self, chunk_size=16384):
                for i in range(0, len(PAYLOAD_NEW), 8000):
                    yield PAYLOAD_NEW[i:i + 8000]

            def __enter__(self):
                return self

            def __exit__(self, *a):
                return False

        class Client:
            calls = 0

            def stream(self, method, url):
                Client.calls += 1
                return Resp(429 if Client.calls == 1 else 200)

        fetch._get_download_client = lambda url: Client()

        def run():
            fetch.download_to_file("http://example.org/img.png", final, final + "\xb7", max_retries=1, initial_delay=0)
    elif producer in ("render_rl", "render_odf"):
        from mwlib.apps import render, buildzip

        src = prepare_nuwiki_dir(os.path.join(workdir, "src-nuwiki"), "new")
        zpath = buildzip.zip_dir(src, os.path.join(workdir, "collection.zip"))
        writer = "rl" if producer == "render_rl" else "odf"

        def run():
            try:
                render.main(["-c", zpath, "-w", writer, "-o", final], standalone_mode=False)
            except SystemExit as e:
                if e.code not in (0, None):
                    raise
    else:
        raise SystemExit("unknown producer")
    # ---- the bracket ---------------------------------------------------------------------------------
    mark("BEGIN")
    try:
        run()
    except BaseException as e:
        result = "raised %s" % type(e).__name__
    mark("END")
    try:
        os.mkdir(os.path.join(workdir, "RESULT-" + result.replace(" ", "-")))  # (a persistent write fault also hits stdout)
    except OSError:
        pass
    sys.stdout.write("RESULT %s\n" % result)
    sys.stdout.flush()


if __name__ == "__main__":
    main()
