"""Independent reference semantics for C04 (no mwlib import): template programs over an AST, and #expr trees.

AST nodes are tuples:
  ("text", s) | ("seq", [nodes]) | ("param", key, default|None) | ("call", name, [pos nodes], [(key, node)])
  ("if", cond, then|None, else|None) | ("ifeq", a, b, then|None, else|None)
  ("switch", value, [ ([key nodes], result node) ... ], default|None, default_style)   default_style in {"#default","bare",None}
"""
import math
import re

NUM = re.compile(r"-?\d+(\.\d+)?\Z")


def is_num(s):
    return bool(NUM.match(s))


def same(a, b):
    """MediaWiki #ifeq/#switch comparison: by value when both sides are numeric, else as strings"""
    if is_num(a) and is_num(b):
        return float(a) == float(b)
    return a == b


def ev(node, env, universe):
    k = node[0]
    if k == "text":
        return node[1]
    if k == "seq":
        return "".join(ev(n, env, universe) for n in node[1])
    if k == "param":
        key, default = node[1], node[2]
        if key in env:
            return env[key]
        if default is not None:
            return ev(default, env, universe)
        return "{{{%s}}}" % key
    if k == "call":
        name, pos, named = node[1], node[2], node[3]
        new = {}
        for i, a in enumerate(pos):
            new[str(i + 1)] = ev(a, env, universe)  # positional: not trimmed
        for key, a in named:
            new[key] = ev(a, env, universe).strip()  # named: trimmed
        return ev(universe[name], new, universe)
    if k == "if":
        cond = ev(node[1], env, universe).strip()
        branch = node[2] if cond else node[3]
        return ev(branch, env, universe).strip() if branch is not None else ""
    if k == "ifeq":
        a = ev(node[1], env, universe).strip()
        b = ev(node[2], env, universe).strip()
        branch = node[3] if same(a, b) else node[4]
        return ev(branch, env, universe).strip() if branch is not None else ""
    if k == "switch":
        v = ev(node[1], env, universe).strip()
        for keys, result in node[2]:
            for key in keys:
                if same(v, ev(key, env, universe).strip()):
                    return ev(result, env, universe).strip()
        if node[3] is not None:
            return ev(node[3], env, universe).strip()
        return ""
    raise ValueError(k)


# ---- serialisation (the spelling is drawn by the generator: pads) -------------------------------
def ser(node, pad):
    """pad() returns drawn whitespace for places where the language trims it"""
    k = node[0]
    if k == "text":
        return node[1]
    if k == "seq":
        return "".join(ser(n, pad) for n in node[1])
    if k == "param":
        return "{{{%s%s}}}" % (node[1], "" if node[2] is None else "|" + ser(node[2], pad))
    if k == "call":
        parts = [("p", ser(a, pad)) for a in node[2]] + [("n", pad() + key + pad() + "=" + pad() + ser(a, pad) + pad()) for key, a in node[3]]
        order = node[4] if len(node) > 4 else list(range(len(parts)))
        # named arguments may stand anywhere; positional ones keep their relative order
        pos = [p for t, p in parts if t == "p"]
        nam = [p for t, p in parts if t == "n"]
        out = []
        for flag in order:
            if flag == "p" and pos:
                out.append(pos.pop(0))
            elif flag == "n" and nam:
                out.append(nam.pop(0))
        out += pos + nam
        return "{{%s%s}}" % (node[1], "".join("|" + p for p in out))
    if k == "if":
        s = "{{#if:" + pad() + ser(node[1], pad) + pad()
        if node[2] is not None or node[3] is not None:
            s += "|" + pad() + (ser(node[2], pad) if node[2] is not None else "") + pad()
        if node[3] is not None:
            s += "|" + pad() + ser(node[3], pad) + pad()
        return s + "}}"
    if k == "ifeq":
        s = "{{#ifeq:" + pad() + ser(node[1], pad) + pad() + "|" + pad() + ser(node[2], pad) + pad()
        if node[3] is not None or node[4] is not None:
            s += "|" + pad() + (ser(node[3], pad) if node[3] is not None else "") + pad()
        if node[4] is not None:
            s += "|" + pad() + ser(node[4], pad) + pad()
        return s + "}}"
    if k == "switch":
        s = "{{#switch:" + pad() + ser(node[1], pad) + pad()
        for keys, result in node[2]:
            for key in keys[:-1]:
                s += "|" + pad() + ser(key, pad) + pad()  # fall-through: bare keys share the next result
            s += "|" + pad() + ser(keys[-1], pad) + pad() + "=" + pad() + ser(result, pad) + pad()
        if node[3] is not None:
            if node[4] == "#default":
                s += "|" + pad() + "#default" + pad() + "=" + pad() + ser(node[3], pad) + pad()
            else:
                s += "|" + pad() + ser(node[3], pad) + pad()
        return s + "}}"
    raise ValueError(k)


# ---- #expr ------------------------------------------------------------------------------------------
# documented precedence (Help:Extension:ParserFunctions, highest first): unary + -, functions/not, ^, * / div mod, + -,
# comparisons, and, or; operators of one level associate left to right.
PREC = {"or": 1, "and": 2, "=": 3, "!=": 3, "<>": 3, "<": 3, ">": 3, "<=": 3, ">=": 3, "+": 4, "-": 4, "*": 5, "/": 5, "div": 5, "mod": 5, "^": 6,
        "fn": 7, "neg": 8, "lit": 9}
FUNCS = ("abs", "floor", "ceil", "trunc", "not")


class Undefined(Exception):
    pass


def xprec(t):
    if t[0] == "lit":
        return 9
    if t[0] == "neg":
        return 8
    if t[0] == "fn":
        return 7
    return PREC[t[1]]


def xeval(t):
    k = t[0]
    if k == "lit":
        return float(t[1]) if "." in t[1] else int(t[1])
    if k == "neg":
        return -xeval(t[1])
    if k == "fn":
        v = xeval(t[2])
        f = t[1]
        if f == "abs":
            return abs(v)
        if f == "floor":
            return math.floor(v)
        if f == "ceil":
            return math.ceil(v)
        if f == "trunc":
            return math.trunc(v)
        if f == "not":
            return 0 if v else 1
    op, a, b = t[1], xeval(t[2]), xeval(t[3])
    if op == "+":
        return a + b
    if op == "-":
        return a - b
    if op == "*":
        return a * b
    if op in ("/", "div"):
        if b == 0:
            raise Undefined("division by zero")
        return a / b
    if op == "mod":
        if a < 0 or b < 0 or int(b) == 0:
            raise Undefined("mod outside the stated domain")
        return int(a) % int(b)
    if op == "^":
        try:
            r = math.pow(a, b)
        except (OverflowError, ValueError):
            raise Undefined("power not finite")
        if not math.isfinite(r) or abs(r) > 1e12:
            raise Undefined("power too large")
        return r
    if op == "=":
        return int(a == b)
    if op in ("!=", "<>"):
        return int(a != b)
    if op == "<":
        return int(a < b)
    if op == ">":
        return int(a > b)
    if op == "<=":
        return int(a <= b)
    if op == ">=":
        return int(a >= b)
    if op == "and":
        return int(bool(a) and bool(b))
    if op == "or":
        return int(bool(a) or bool(b))
    raise ValueError(op)


def xser(t, full=False):
    k = t[0]
    if k == "lit":
        return t[1]
    if k == "neg":
        inner = xser(t[1], full)
        if full or t[1][0] not in ("lit",):
            inner = "(" + inner + ")"
        return "-" + inner if not full else "(-" + inner + ")"
    if k == "fn":
        inner = xser(t[2], full)
        if full or xprec(t[2]) < 7:
            inner = "(" + inner + ")"
        s = t[1] + " " + inner
        return "(" + s + ")" if full else s
    op = t[1]
    a, b = xser(t[2], full), xser(t[3], full)
    if not full:
        if xprec(t[2]) < PREC[op]:
            a = "(" + a + ")"
        if xprec(t[3]) <= PREC[op]:
            b = "(" + b + ")"
        return "%s %s %s" % (a, op, b)
    return "(%s %s %s)" % (a, op, b)
