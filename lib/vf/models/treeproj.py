"""Projection of a parse tree onto the structural classes the properties talk about (C02 / C07)."""
import re

WORD = re.compile(r"[Ww]q\d+x")
STYCLS = {"Strong", "Emphasized", "Underline", "Sup", "Sub", "Small", "Big", "Strike", "Teletyped", "Cite", "Deleted", "Inserted"}


def _maps():
    from mwlib.parser import advtree as A, nodes as N

    clsmap = {A.Strong: "Strong", A.Emphasized: "Emphasized", A.Underline: "Underline", A.Sup: "Sup", A.Sub: "Sub", A.Small: "Small",
              A.Big: "Big", A.Strike: "Strike", A.Teletyped: "Teletyped", A.Cite: "Cite", A.Deleted: "Deleted", A.Inserted: "Inserted",
              A.Table: "Table", A.Row: "Row", A.Item: "Item", A.Reference: "Ref", A.PreFormatted: "Pre", A.DefinitionTerm: "DT",
              A.DefinitionDescription: "DD", N.Caption: "Caption"}
    if hasattr(A, "TableCaption"):
        clsmap[A.TableCaption] = "Caption"
    return A, N, clsmap


def chain_of(node):
    A, N, clsmap = _maps()
    ch = []
    p = node
    while p is not None:
        c = p.__class__
        par = p.parent
        if c in clsmap:
            ch.append(clsmap[c])
        elif c is A.Section:
            ch.append("Sec:%d" % p.level)
        elif c is A.ItemList:
            ch.append("List:" + ("#" if getattr(p, "numbered", False) else "*"))
        elif c is A.Cell:
            ch.append("Cell:h" if getattr(p, "is_header", False) else "Cell:d")
        elif c in (A.ArticleLink, A.NamespaceLink):
            ch.append("Link:%s@%s" % (p.target, "ns" if c is A.NamespaceLink else "0"))
        elif c is N.NamedURL:
            ch.append("Link:" + p.caption)
        elif c is N.Node and par is not None and par.__class__ is A.Section and par.children[0] is p:
            ch.append("Heading")
        p = par
    ch.reverse()
    return tuple(ch)


def observed(tree):
    A, N, _ = _maps()
    res = []
    for n in tree.allchildren():
        if n.__class__ is N.Text:
            for w in WORD.findall(n.caption or ""):
                res.append((w, chain_of(n)))
        elif n.__class__ in (A.ArticleLink, A.NamespaceLink) and not n.children:
            for w in WORD.findall(n.target or ""):
                res.append((w, chain_of(n)))
    return res


def norm(ch):
    """the relative order of style classes (e.g. Strong/Emphasized for ''''') is not denoted by the markup"""
    st = sorted(c for c in ch if c in STYCLS)
    return tuple(c for c in ch if c not in STYCLS) + tuple(st)


def placement(tree):
    """C07 projection: (word, section path by heading word, item nesting depth, list kinds, reference ordinal, in-table)"""
    A, N, _ = _maps()
    out = []
    ref_ids = {}
    for n in tree.allchildren():
        words = []
        if n.__class__ is N.Text:
            words = WORD.findall(n.caption or "")
        elif n.__class__ in (A.ArticleLink, A.NamespaceLink) and not n.children:
            words = WORD.findall(n.target or "")
        if not words:
            continue
        secs, items, kinds, ref, table = [], 0, [], None, False
        p = n
        while p is not None:
            c = p.__class__
            if c is A.Section:
                title = ""
                if p.children:
                    m = WORD.search(p.children[0].get_all_display_text() if hasattr(p.children[0], "get_all_display_text") else "")
                    title = m.group(0) if m else ""
                secs.append(title)
            elif c is A.Item:
                items += 1
            elif c is A.ItemList:
                kinds.append("#" if getattr(p, "numbered", False) else "*")
            elif c is A.Reference:
                ref = ref_ids.setdefault(id(p), len(ref_ids))
            elif c is A.Table:
                table = True
            p = p.parent
        for w in words:
            out.append((w, tuple(reversed(secs)), items, tuple(reversed(kinds)), ref, table))
    return out
