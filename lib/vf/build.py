"""Rebuild mwlib's five compiled modules from $VERIF_REPO's *working tree* into a
content-addressed cache under /verif/.build, never writing into the repository, and
serve them through a sys.meta_path finder.  Everything else is imported straight from
$VERIF_REPO/src.  See DESIGN.md section 0.1.
"""
import hashlib
import importlib.abc
import importlib.machinery
import importlib.util
import os
import shutil
import subprocess
import sys
import sysconfig
from concurrent.futures import ThreadPoolExecutor

VERIF = os.path.dirname(os.path.dirname(os.path.dirname(os.path.abspath(__file__))))
REPO = os.environ.get("VERIF_REPO", "/repo")
SRC = os.path.join(REPO, "src")
CACHE = os.path.join(VERIF, ".build")

EXTS = {
    "mwlib.parser.templ.evaluate": "mwlib/parser/templ/evaluate.pyx",
    "mwlib.parser.templ.nodes": "mwlib/parser/templ/nodes.pyx",
    "mwlib.parser.templ.node": "mwlib/parser/templ/node.pyx",
    "mwlib.parser.refine._core": "mwlib/parser/refine/_core.pyx",
    "mwlib.parser.token._uscan": "mwlib/parser/token/_uscan.cc",
}
CFLAGS = ["-O1", "-fPIC", "-shared", "-w", "-fno-strict-aliasing", "-DCYDIRECTIVES_DEFAULT"]


class BuildError(Exception):
    pass


def _cython_version():
    import Cython

    return Cython.__version__


def _key(modname, relpath):
    h = hashlib.sha256()
    with open(os.path.join(SRC, relpath), "rb") as f:
        h.update(f.read())
    # .pxd files next to a .pyx influence the build
    pxd = os.path.join(SRC, os.path.splitext(relpath)[0] + ".pxd")
    if os.path.exists(pxd):
        with open(pxd, "rb") as f:
            h.update(f.read())
    h.update(modname.encode())
    h.update(_cython_version().encode())
    h.update(sys.version.encode())
    h.update(" ".join(CFLAGS).encode())
    return h.hexdigest()[:20]


def _build_one(modname, relpath):
    key = _key(modname, relpath)
    outdir = os.path.join(CACHE, key)
    leaf = modname.rsplit(".", 1)[1]
    so = os.path.join(outdir, leaf + sysconfig.get_config_var("EXT_SUFFIX"))
    if os.path.exists(so):
        return modname, so
    tmp = outdir + ".tmp%d" % os.getpid()
    shutil.rmtree(tmp, ignore_errors=True)
    # mirror the package path so that cython derives the dotted module name
    pkgdir = os.path.join(tmp, os.path.dirname(relpath))
    os.makedirs(pkgdir)
    d = tmp
    for part in os.path.dirname(relpath).split("/"):
        d = os.path.join(d, part)
        open(os.path.join(d, "__init__.py"), "w").close()
    srcfile = os.path.join(pkgdir, os.path.basename(relpath))
    shutil.copy(os.path.join(SRC, relpath), srcfile)
    inc = sysconfig.get_paths()["include"]
    try:
        if relpath.endswith(".pyx"):
            cfile = os.path.splitext(srcfile)[0] + ".c"
            subprocess.run(
                # `make build` (run by setup.py before cythonize) generates the .c files with plain `cython -3`;
                # cythonize then finds them up to date, so setup.py's boundscheck/wraparound=False directives are
                # never applied in a real build (the tracked .c files confirm: wraparound=1, boundscheck=1).
                [sys.executable, "-m", "cython", "-3", "-o", cfile, srcfile],
                check=True, cwd=tmp, capture_output=True, text=True,
            )
            cc = ["gcc"]
        else:
            cfile = srcfile
            cc = ["g++"]
        tmpso = os.path.join(tmp, os.path.basename(so))
        subprocess.run(cc + CFLAGS + ["-I", inc, cfile, "-o", tmpso], check=True,
                       capture_output=True, text=True)
    except subprocess.CalledProcessError as e:
        shutil.rmtree(tmp, ignore_errors=True)
        raise BuildError("building %s failed:\n%s\n%s" % (modname, e.stdout, e.stderr))
    os.makedirs(outdir, exist_ok=True)
    os.replace(tmpso, so)
    shutil.rmtree(tmp, ignore_errors=True)
    return modname, so


def build_all():
    os.makedirs(CACHE, exist_ok=True)
    with ThreadPoolExecutor(len(EXTS)) as ex:
        return dict(ex.map(lambda kv: _build_one(*kv), EXTS.items()))


class _Finder(importlib.abc.MetaPathFinder):
    def __init__(self, table):
        self.table = table

    def find_spec(self, fullname, path=None, target=None):
        so = self.table.get(fullname)
        if so is None:
            return None
        loader = importlib.machinery.ExtensionFileLoader(fullname, so)
        return importlib.util.spec_from_file_location(fullname, so, loader=loader)


_installed = False


def install():
    """Build (or reuse) the extension cache and make `import mwlib`/`import qs` resolve
    to $VERIF_REPO/src with the cached extension modules."""
    global _installed
    if _installed:
        return
    table = build_all()
    sys.meta_path.insert(0, _Finder(table))
    # make sure $VERIF_REPO/src wins over an editable install of another tree
    if SRC in sys.path:
        sys.path.remove(SRC)
    sys.path.insert(0, SRC)
    for name in list(sys.modules):
        if name == "mwlib" or name.startswith("mwlib.") or name == "qs" or name.startswith("qs."):
            del sys.modules[name]
    _installed = True
    import mwlib  # noqa

    got = os.path.realpath(list(mwlib.__path__)[0])
    want = os.path.realpath(os.path.join(SRC, "mwlib"))
    if got != want:
        raise BuildError("mwlib imported from %s, expected %s" % (got, want))


if __name__ == "__main__":
    import time

    t = time.time()
    for k, v in sorted(build_all().items()):
        print(k, v)
    print("build %.1fs" % (time.time() - t))
