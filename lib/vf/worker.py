"""One shard of one property: python -m vf.worker <ID> <tier> <seed> <shard> <nshards> <workdir>"""
import importlib
import json
import logging
import os
import resource
import sys
import traceback


def main():
    prop, tier, seed, shard, nshards, workdir = sys.argv[1:7]
    shard, nshards = int(shard), int(nshards)
    out = os.path.join(workdir, "shard%02d.json" % shard)
    logging.disable(logging.CRITICAL)
    try:
        gib = int(os.environ.get("VERIF_AS_GIB", "6"))
        hard = resource.getrlimit(resource.RLIMIT_AS)[1]
        resource.setrlimit(resource.RLIMIT_AS, (gib << 30, hard))
    except Exception:
        pass
    from . import build, findings
    from .ctx import Ctx, HarnessError

    res = None
    try:
        build.install()
        fuzz = os.environ.get("VERIF_FUZZ") is not None
        if fuzz:
            out = os.environ["VERIF_FUZZ_OUT"]
            sys.path.insert(0, os.path.join(build.VERIF, ".deps"))
            import atheris

            with atheris.instrument_imports(include=["mwlib", "qs"], enable_loader_override=False):
                mod = importlib.import_module("vf.props.%s" % prop.lower())
                for name in getattr(mod, "FUZZ_IMPORTS", ()):
                    importlib.import_module(name)
        mod = importlib.import_module("vf.props.%s" % prop.lower())
        ctx = Ctx(prop, tier, seed, shard, nshards, workdir,
                  known=findings.for_property(prop),
                  announce_path=None if fuzz else os.path.join(workdir, "current%02d" % shard))
        if shard == 0 and hasattr(mod, "replay") and not fuzz:
            # regression corpus: witnesses of fixed findings and of seeded changes
            for path, case in findings.regress_cases(prop):
                ctx.announce(case)
                mod.replay(ctx, case)
                ctx.labels["regress-replayed"] = ctx.labels.get("regress-replayed", 0) + 1
        mod.run_shard(ctx)
        res = ctx.result()
        res["status"] = "ok"
    except HarnessError as e:
        res = dict(status="harness", error=str(e), shard=shard)
    except BaseException:
        res = dict(status="harness", error=traceback.format_exc(), shard=shard)
    with open(out + ".tmp", "w") as f:
        json.dump(res, f, default=repr)
    os.replace(out + ".tmp", out)
    sys.stdout.flush()
    os._exit(0)


if __name__ == "__main__":
    main()
